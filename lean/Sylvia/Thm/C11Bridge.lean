import Sylvia.Extracted.BridgeFns
/-!
# C11 on the regenerated code of `sylvia/src/into_response.rs`

`Extracted.Bridge.SubMsg.into_msg` and `Extracted.Bridge.Response.into_response` are rewritten from the current source on every
run by the function translator (`vlib/rs2lean.py`, profile `bridge`). An arm of the `match` compiled under
`#[cfg(feature = "f")]` is translated as `if feat "f" then <arm> else <wildcard arm>`, so the statements below are about the code
as built under **every** feature set `feat` at once. `variantFeature` is cosmwasm-std 2.2's own table of the feature each
`CosmosMsg` variant is declared under (trusted, DESIGN §6): a message of a variant that does not exist under `feat` cannot be
constructed in such a build, hence the hypothesis `existsUnder`.

The theorems say, for every response over the empty custom type (any number of sub-messages of any kind, any ids, payloads,
gas limits, triggers, attributes, events, data): the regenerated function never panics; it returns a response whose
sub-messages are the given ones in order — id, payload, gas limit, reply trigger and message content untouched, only the type
index changed — and whose attributes, events and data are the given ones, when no message is custom; and it returns an error
(and no response) exactly when some message is custom.
-/
namespace C11B
open RustSem RustExtern Extracted.Bridge

variable {X : Ext} {C T : Type}

inductive Kind | bank | custom | staking | distribution | stargate | ibc | wasm | gov | any
deriving DecidableEq, Repr

def kindOf : CosmosMsg X T → Kind
  | .Bank _ => .bank | .Custom _ => .custom | .Staking _ => .staking | .Distribution _ => .distribution
  | .Stargate _ _ => .stargate | .Ibc _ => .ibc | .Wasm _ => .wasm | .Gov _ => .gov | .Any _ => .any

/-- the cargo feature of cosmwasm-std (forwarded under the same name by sylvia) a variant of `CosmosMsg` is declared under -/
def variantFeature : Kind → Option String
  | .bank | .wasm | .custom => none
  | .staking | .distribution => some "staking"
  | .ibc | .gov | .stargate => some "stargate"
  | .any => some "cosmwasm_2_0"

def existsUnder (feat : String → Bool) (k : Kind) : Bool :=
  match variantFeature k with
  | none => true
  | some f => feat f

/-- what a message holds, whatever custom type it is indexed by -/
inductive Content (X : Ext) where
  | Bank (a : X.Bank) | Custom | Staking (a : X.Staking) | Distribution (a : X.Distribution)
  | Stargate (type_url : String) (value : X.Binary) | Ibc (a : X.Ibc) | Wasm (a : X.Wasm) | Gov (a : X.Gov) | Any (a : X.Any)

def content : CosmosMsg X T → Content X
  | .Bank a => .Bank a | .Custom _ => .Custom | .Staking a => .Staking a | .Distribution a => .Distribution a
  | .Stargate u v => .Stargate u v | .Ibc a => .Ibc a | .Wasm a => .Wasm a | .Gov a => .Gov a | .Any a => .Any a

/-- everything the property lists about a sub-message: id, payload, content, gas limit, reply trigger -/
def view (m : SubMsg X T) : Nat × X.Binary × Content X × Option Nat × ReplyOn :=
  (m.id, m.payload, content m.msg, m.gas_limit, m.reply_on)

def customErr : StdError := .generic_err "Custom Empty message should not be sent"

/-- **never panics, never loops** -/
theorem into_msg_total (feat : String → Bool) (m : SubMsg X CwEmpty) :
    ∃ r, SubMsg.into_msg (C := C) feat m = .ok r := by
  unfold SubMsg.into_msg
  cases m.msg <;> simp <;> split <;> exact ⟨_, rfl⟩

/-- a non-custom message of a variant that exists under the feature set is converted with every field intact -/
theorem into_msg_ok (feat : String → Bool) (m : SubMsg X CwEmpty)
    (hex : existsUnder feat (kindOf m.msg) = true) (hc : kindOf m.msg ≠ .custom) :
    ∃ m' : SubMsg X C, SubMsg.into_msg feat m = .ok (.ok m') ∧ view m' = view m := by
  unfold SubMsg.into_msg
  cases hm : m.msg <;> simp only [hm, kindOf, existsUnder, variantFeature] at hex hc ⊢
  all_goals first
    | exact absurd rfl hc
    | (simp only [hex, if_true]; exact ⟨_, rfl, by simp [view, content, hm]⟩)
    | exact ⟨_, rfl, by simp [view, content, hm]⟩

/-- a custom message is refused, whatever the features -/
theorem into_msg_custom (feat : String → Bool) (m : SubMsg X CwEmpty) (hc : kindOf m.msg = .custom) :
    SubMsg.into_msg (C := C) feat m = .ok (.error customErr) := by
  unfold SubMsg.into_msg
  cases hm : m.msg <;> simp only [hm, kindOf] at hc ⊢ <;> first | rfl | cases hc

/-- an error of `into_msg` on a message that exists under the feature set means the message is custom -/
theorem into_msg_err (feat : String → Bool) (m : SubMsg X CwEmpty) (hex : existsUnder feat (kindOf m.msg) = true)
    (e : StdError) (h : SubMsg.into_msg (C := C) feat m = .ok (.error e)) : kindOf m.msg = .custom := by
  by_cases hc : kindOf m.msg = .custom
  · exact hc
  · obtain ⟨m', h', _⟩ := into_msg_ok (C := C) feat m hex hc
    rw [h'] at h; cases h

/-- the iterator pipeline `messages.into_iter().map(|msg| msg.into_msg()).collect::<StdResult<_>>()` -/
theorem collect_ok (feat : String → Bool) : ∀ ms : List (SubMsg X CwEmpty),
    (∀ m ∈ ms, existsUnder feat (kindOf m.msg) = true ∧ kindOf m.msg ≠ .custom) →
    ∃ ms' : List (SubMsg X C), collectResult (fun msg => (SubMsg.into_msg feat msg).bind fun v => .ok v) ms = .ok (.ok ms')
      ∧ ms'.map view = ms.map view
  | [], _ => ⟨[], rfl, rfl⟩
  | m :: r, h => by
    obtain ⟨m', hm', hv⟩ := into_msg_ok (C := C) feat m (h m (by simp)).1 (h m (by simp)).2
    obtain ⟨r', hr', hvr⟩ := collect_ok feat r (fun x hx => h x (by simp [hx]))
    exact ⟨m' :: r', by simp [collectResult, hm', hr'], by simp [hv, hvr]⟩

theorem collect_err (feat : String → Bool) : ∀ ms : List (SubMsg X CwEmpty),
    (∀ m ∈ ms, existsUnder feat (kindOf m.msg) = true) → (∃ m ∈ ms, kindOf m.msg = .custom) →
    collectResult (fun msg => (SubMsg.into_msg (C := C) feat msg).bind fun v => .ok v) ms = .ok (.error customErr)
  | [], _, h => by obtain ⟨m, hm, _⟩ := h; simp at hm
  | m :: r, hex, h => by
    by_cases hc : kindOf m.msg = .custom
    · simp [collectResult, into_msg_custom feat m hc]
    · obtain ⟨m', hm', _⟩ := into_msg_ok (C := C) feat m (hex m (by simp)) hc
      obtain ⟨x, hx, hxc⟩ := h
      have hx' : x ∈ r := by
        rcases List.mem_cons.mp hx with rfl | hx'
        · exact absurd hxc hc
        · exact hx'
      simp [collectResult, hm', collect_err feat r (fun y hy => hex y (by simp [hy])) ⟨x, hx', hxc⟩]

/-- **C11 on the regenerated code, success half.** Under every feature set: a response none of whose messages is custom reaches the
caller with every sub-message (order, id, payload, gas limit, reply trigger, content), attribute, event and the data intact. -/
theorem code_ok (feat : String → Bool) (r : Response X CwEmpty)
    (h : ∀ m ∈ r.messages, existsUnder feat (kindOf m.msg) = true ∧ kindOf m.msg ≠ .custom) :
    ∃ r' : Response X T, Response.into_response feat r = .ok (.ok r') ∧ r'.messages.map view = r.messages.map view
      ∧ r'.attributes = r.attributes ∧ r'.events = r.events ∧ r'.data = r.data := by
  obtain ⟨ms', hms, hv⟩ := collect_ok (C := T) feat r.messages h
  refine ⟨{ messages := ms', attributes := r.attributes, events := r.events, data := r.data }, ?_, hv, rfl, rfl, rfl⟩
  simp [Response.into_response, hms, Response.new, Response.add_submessages, Response.add_events, Response.add_attributes]

/-- **C11 on the regenerated code, failure half.** The conversion fails — an error, no partial response — exactly when the response
contains a custom-typed message. -/
theorem code_err_iff (feat : String → Bool) (r : Response X CwEmpty)
    (hex : ∀ m ∈ r.messages, existsUnder feat (kindOf m.msg) = true) :
    (∃ e, Response.into_response (T := T) feat r = .ok (.error e)) ↔ ∃ m ∈ r.messages, kindOf m.msg = .custom := by
  constructor
  · rintro ⟨e, he⟩
    by_cases h : ∃ m ∈ r.messages, kindOf m.msg = .custom
    · exact h
    · exfalso
      have hall : ∀ m ∈ r.messages, existsUnder feat (kindOf m.msg) = true ∧ kindOf m.msg ≠ .custom :=
        fun m hm => ⟨hex m hm, fun hk => h ⟨m, hm, hk⟩⟩
      obtain ⟨r', hr', _⟩ := code_ok (T := T) feat r hall
      rw [hr'] at he; cases he
  · intro h
    exact ⟨customErr, by simp [Response.into_response, collect_err (C := T) feat r.messages hex h]⟩

/-- **never panics**: whatever the response and the features, the regenerated `into_response` returns normally -/
theorem code_total (feat : String → Bool) (r : Response X CwEmpty) :
    ∃ out, Response.into_response (T := T) feat r = .ok out := by
  have key : ∀ ms : List (SubMsg X CwEmpty),
      ∃ o, collectResult (fun msg => (SubMsg.into_msg (C := T) feat msg).bind fun v => .ok v) ms = .ok o := by
    intro ms
    induction ms with
    | nil => exact ⟨_, rfl⟩
    | cons m t ih =>
      obtain ⟨o, ho⟩ := ih
      obtain ⟨q, hq⟩ := into_msg_total (C := T) feat m
      cases q with
      | error e => exact ⟨.error e, by simp [collectResult, hq]⟩
      | ok b => cases o with
        | error e => exact ⟨.error e, by simp [collectResult, hq, ho]⟩
        | ok bs => exact ⟨.ok (b :: bs), by simp [collectResult, hq, ho]⟩
  obtain ⟨o, ho⟩ := key r.messages
  cases o with
  | error e => exact ⟨.error e, by simp [Response.into_response, ho]⟩
  | ok ms =>
    simp only [Response.into_response, ho, bind_ok]
    exact ⟨_, rfl⟩

/-- non-vacuity: payloads are strings; under the default feature set (staking only) a bank, a staking and a wasm message with
different ids, gas limits and triggers are converted, and adding a custom one makes the conversion fail -/
def XS : Ext := ⟨String, String, String, String, String, String, String, String, String × String, String⟩
def featDefault (f : String) : Bool := f == "staking"
def demo : Response XS CwEmpty :=
  { messages := [⟨1, "p", .Bank "b", some 5, .Always⟩, ⟨2, "", .Staking "s", none, .Never⟩, ⟨3, "q", .Wasm "w", some 0, .Error⟩],
    attributes := [("a", "b")], events := ["e"], data := some "d" }

example : ∀ m ∈ demo.messages, existsUnder featDefault (kindOf m.msg) = true ∧ kindOf m.msg ≠ .custom := by
  intro m hm; simp [demo] at hm; rcases hm with rfl | rfl | rfl <;> simp [kindOf, existsUnder, variantFeature, featDefault]
example : ∃ e, Response.into_response (T := Nat) featDefault { demo with messages := demo.messages ++ [⟨4, "", .Custom .mk, none, .Success⟩] }
    = .ok (.error e) := by
  refine (code_err_iff featDefault _ ?_).mpr ⟨⟨4, "", .Custom .mk, none, .Success⟩, by simp, rfl⟩
  intro m hm; simp [demo] at hm
  rcases hm with rfl | rfl | rfl | rfl <;> simp [kindOf, existsUnder, variantFeature, featDefault]

end C11B
