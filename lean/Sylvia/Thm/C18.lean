import Sylvia.Model.Validate
import Sylvia.Lemmas.Reply
/-!
# C18 — programs violating the documented constraints are rejected with a diagnostic

`Validate.validate*` model the validations of the three macros; an expansion is clean iff the list is
empty. One theorem per documented rule: a program breaking the rule is rejected, whatever the rest of
the program looks like. For the reply table the diagnostics of the fold are shown to be *monotone*
(nothing raised is ever dropped) and each documented conflict is shown to raise one.
-/
namespace C18
open Sylvia Sylvia.Gen Sylvia.Validate Sylvia.Reply

theorem no_new_rejected (v : VContract) (h : v.hasNew = false) : validateContract v ≠ [] := by
  simp [validateContract, h]

theorem new_with_params_rejected (v : VContract) (h1 : v.hasNew = true) (h2 : 0 < v.newParams) : validateContract v ≠ [] := by
  simp [validateContract, h1, h2]

theorem no_instantiate_rejected (v : VContract) (h : countKind .instantiate v.contract.methods = 0) : validateContract v ≠ [] := by
  unfold validateContract
  simp only [h, if_true]
  cases v.hasNew <;> simp <;> split <;> simp

theorem several_instantiate_rejected (v : VContract) (h : 1 < countKind .instantiate v.contract.methods) : validateContract v ≠ [] := by
  unfold validateContract
  have h0 : countKind .instantiate v.contract.methods ≠ 0 := by omega
  simp only [h0, if_false, h, if_true]
  cases v.hasNew <;> simp <;> split <;> simp

theorem several_migrate_rejected (v : VContract) (h : 1 < countKind .migrate v.contract.methods) : validateContract v ≠ [] := by
  unfold validateContract
  simp only [h, if_true]
  intro he
  have := congrArg List.length he
  simp at this

theorem iface_instantiate_rejected (v : VInterface) (h : 0 < countKind .instantiate v.iface.methods) : validateInterface v ≠ [] := by
  unfold validateInterface
  simp only [h, if_true]
  intro he
  have := congrArg List.length he
  simp at this

theorem iface_migrate_rejected (v : VInterface) (h : 0 < countKind .migrate v.iface.methods) : validateInterface v ≠ [] := by
  unfold validateInterface
  simp only [h, if_true]
  intro he
  have := congrArg List.length he
  simp at this

theorem iface_generics_rejected (v : VInterface) (h : 0 < v.generics) : validateInterface v ≠ [] := by
  simp [validateInterface, h]

theorem iface_missing_error_rejected (v : VInterface) (h : v.hasError = false) : validateInterface v ≠ [] := by
  unfold validateInterface
  simp only [h]
  intro he
  have := congrArg List.length he
  simp at this

/-- an attribute argument outside the vocabulary of its parser is rejected (every parser, every position) -/
theorem unknown_word_rejected_contract (v : VContract) (w : AttrWord) (hw : w ∈ v.words) (hbad : wordOk w = false) :
    validateContract v ≠ [] := by
  unfold validateContract
  have : badWords v.words ≠ [] := by
    unfold badWords
    intro he
    have hm : w ∈ v.words.filter (fun w => !wordOk w) := by simp [List.mem_filter, hw, hbad]
    have := List.map_eq_nil_iff.mp he
    rw [this] at hm; simp at hm
  intro he
  have hl := congrArg List.length he
  simp only [List.length_append, List.length_nil] at hl
  have : (badWords v.words).length ≠ 0 := by simpa using this
  omega

theorem unknown_word_rejected_interface (v : VInterface) (w : AttrWord) (hw : w ∈ v.words) (hbad : wordOk w = false) :
    validateInterface v ≠ [] := by
  unfold validateInterface
  have : badWords v.words ≠ [] := by
    unfold badWords
    intro he
    have hm : w ∈ v.words.filter (fun w => !wordOk w) := by simp [List.mem_filter, hw, hbad]
    have := List.map_eq_nil_iff.mp he
    rw [this] at hm; simp at hm
  intro he
  have hl := congrArg List.length he
  simp only [List.length_append, List.length_nil] at hl
  have : (badWords v.words).length ≠ 0 := by simpa using this
  omega

theorem too_few_concrete_types_rejected (c : Contract) (given : Nat) (ws : List AttrWord) (h : given ≠ c.generics.length) :
    validateEntryPoints c given ws ≠ [] := by
  simp [validateEntryPoints, h]

-- ------------------------------------------------------------------------------------------------
-- the reply table
-- ------------------------------------------------------------------------------------------------

/-- diagnostics are never dropped while the table is built -/
theorem upsert_diags_mono (b : Bool) (tyEq : Ty → Ty → Bool) (acc : List Entry × List Diag) (mh : Method × Name) :
    ∃ extra, (upsert b tyEq acc mh).2 = acc.2 ++ extra := by
  obtain ⟨tbl, ds⟩ := acc
  obtain ⟨m, h⟩ := mh
  unfold upsert
  simp only
  cases tbl.find? (fun x => x.id == replyIdOf h) with
  | some e =>
    simp only
    split
    · exact ⟨_, rfl⟩
    · exact ⟨_, rfl⟩
  | none => exact ⟨_, rfl⟩

theorem foldl_diags_mono (b : Bool) (tyEq : Ty → Ty → Bool) : ∀ (l : List (Method × Name)) (acc : List Entry × List Diag),
    ∃ extra, (l.foldl (upsert b tyEq) acc).2 = acc.2 ++ extra
  | [], acc => ⟨[], by simp⟩
  | x :: r, acc => by
    obtain ⟨e1, h1⟩ := upsert_diags_mono b tyEq acc x
    obtain ⟨e2, h2⟩ := foldl_diags_mono b tyEq r (upsert b tyEq acc x)
    exact ⟨e1 ++ e2, by simp [List.foldl, h2, h1, List.append_assoc]⟩

/-- **two methods claiming the same reply name and outcome** (or one of them `always`): whenever the fold meets
a pair whose id is already in the table with an excluding outcome, the program is rejected -/
theorem duplicate_outcome_rejected (b : Bool) (tyEq : Ty → Ty → Bool) (pre post : List (Method × Name)) (m : Method) (h : Name)
    (e : Entry)
    (hfind : ((pre.foldl (upsert b tyEq) ([], [])).1).find? (fun x => x.id == replyIdOf h) = some e)
    (hex : e.handlers.any (fun p => excludes p.2 (replyOnOfMethod m)) = true) :
    ((pre ++ (m, h) :: post).foldl (upsert b tyEq) ([], [])).2 ≠ [] := by
  rw [List.foldl_append, List.foldl_cons]
  generalize hacc : pre.foldl (upsert b tyEq) ([], []) = acc at hfind
  obtain ⟨tbl, ds⟩ := acc
  have hstep : (upsert b tyEq (tbl, ds) (m, h)).2 = ds ++ [.duplicated (replyIdOf h)] := by
    unfold upsert
    simp only at hfind ⊢
    rw [hfind]
    simp [hex]
  obtain ⟨extra, hx⟩ := foldl_diags_mono b tyEq post (upsert b tyEq (tbl, ds) (m, h))
  rw [hx, hstep]
  simp

/-- a method whose own shape is wrong (no payload parameter, parameters around a raw payload, misplaced
`sv::data`) raises its diagnostic when it opens a new table entry -/
theorem new_entry_diag_kept (b : Bool) (tyEq : Ty → Ty → Bool) (pre post : List (Method × Name)) (m : Method) (h : Name)
    (hnone : ((pre.foldl (upsert b tyEq) ([], [])).1).find? (fun x => x.id == replyIdOf h) = none)
    (hbad : (newEntry m h).2 ≠ []) :
    ((pre ++ (m, h) :: post).foldl (upsert b tyEq) ([], [])).2 ≠ [] := by
  rw [List.foldl_append, List.foldl_cons]
  generalize hacc : pre.foldl (upsert b tyEq) ([], []) = acc at hnone
  obtain ⟨tbl, ds⟩ := acc
  have hstep : (upsert b tyEq (tbl, ds) (m, h)).2 = ds ++ (newEntry m h).2 := by
    unfold upsert
    simp only at hnone ⊢
    rw [hnone]
  obtain ⟨extra, hx⟩ := foldl_diags_mono b tyEq post (upsert b tyEq (tbl, ds) (m, h))
  rw [hx, hstep]
  intro he
  have hl := congrArg List.length he
  simp only [List.length_append, List.length_nil] at hl
  have : (newEntry m h).2.length ≠ 0 := by simpa using hbad
  omega

theorem missing_payload_diag (m : Method) (h : Name) (hs : replyOnOfMethod m ≠ .success) (ha : m.args.length ≤ 1) :
    (newEntry m h).2 ≠ [] := by
  unfold newEntry
  have hne : (replyOnOfMethod m != ReplyOn.success) = true := by simpa using hs
  have hdrop : (m.args.drop 1).isEmpty = true := by
    match hm : m.args, ha with
    | [], _ => simp
    | [x], _ => simp
  simp only [hne, Bool.or_true, if_true, hdrop]
  intro he
  have hl := congrArg List.length he
  simp at hl

/-- `sv::data` outside a success method -/
theorem data_wrong_scenario_diag (m : Method) (i : Nat) (hi : findIdx? (fun a : Arg => a.data.isSome) m.args = some i)
    (hs : replyOnOfMethod m ≠ .success) : (dataField m).2 ≠ [] := by
  unfold dataField
  have : (replyOnOfMethod m == ReplyOn.success) = false := by simpa using hs
  simp [hi, this]

/-- `sv::data` not on the first parameter -/
theorem data_wrong_place_diag (m : Method) (i : Nat) (hi : findIdx? (fun a : Arg => a.data.isSome) m.args = some (i + 1))
    (hs : replyOnOfMethod m = .success) : (dataField m).2 ≠ [] := by
  unfold dataField
  simp [hi, hs]

end C18
