import Sylvia.Model.Dispatch
/-!
# C04 — handlers are reachable only through the entry point of their own kind
-/
namespace C04
open Sylvia Sylvia.Gen Sylvia.Dispatch Sylvia.Serde

theorem mem_variantsOf {k : Kind} {ms : List Method} {m : Method} (h : m ∈ variantsOf k ms) : m.kind? = some k := by
  simp only [variantsOf, List.mem_filter] at h
  simpa using h.2

theorem partMethods_kind (k : Kind) (p : Program) (i v : Nat) (ms : List Method) (m : Method)
    (h1 : (partMethods k p)[i]? = some ms) (h2 : ms[v]? = some m) : m.kind? = some k := by
  have hms : ms ∈ partMethods k p := List.mem_of_getElem? h1
  have hm : m ∈ ms := List.mem_of_getElem? h2
  simp only [partMethods, List.mem_append, List.mem_map, List.mem_singleton] at hms
  rcases hms with ⟨r, _, rfl⟩ | rfl <;> exact mem_variantsOf hm

/-- **C04.** Whatever document arrives at the entry point of kind `k` (any program, any JSON, any context):
if a handler runs at all, it is a method annotated with that very kind — even when methods of other
kinds share its name or argument shape, in the contract or in any interface. -/
theorem kind_separation (p : Program) (k : Kind) (doc : Json) (c : CtxIn) (call : Call) (m : Method) (i : Nat)
    (h : route p k doc c = .ran call m i) : m.kind? = some k ∧ call.kind = k := by
  have wrapped : ∀ k', (k' = .exec ∨ k' = .query ∨ k' = .sudo) → k = k' →
      (match wrapperDecode (parts k p) doc with
        | .ok i v fs => (match callOfWrapped p k i v fs c with
            | some (call, m) => Outcome.ran call m i
            | none => .decodeErr "internal")
        | r => .decodeErr (wrapErrText r)) = .ran call m i → m.kind? = some k ∧ call.kind = k := by
    intro k' _ _ h
    cases hw : wrapperDecode (parts k p) doc with
    | ok i' v fs =>
      simp only [hw] at h
      cases hc : callOfWrapped p k i' v fs c with
      | none => simp [hc] at h
      | some cm =>
        obtain ⟨call', m'⟩ := cm
        simp only [hc] at h
        cases h
        unfold callOfWrapped at hc
        cases hms : (partMethods k p)[i]? with
        | none => simp [hms] at hc
        | some ms =>
          simp only [hms] at hc
          cases hm2 : ms[v]? with
          | none => simp [hm2] at hc
          | some m2 =>
            simp only [hm2] at hc
            cases hc
            exact ⟨partMethods_kind _ p i v ms m hms hm2, rfl⟩
    | errParse => simp [hw] at h
    | errFormat => simp [hw] at h
    | errCount n => simp [hw] at h
    | errBody n => simp [hw] at h
    | errUnknown t => simp [hw] at h
  have flat : ∀ k', (k' = .instantiate ∨ k' = .migrate) → k = k' →
      (match variantsOf k p.contract.methods with
        | m :: _ => (match decodeStruct false (m.args.map fieldSpec) doc with
            | some fs => Outcome.ran { handler := "ct." ++ Casing.toString m.name, kind := k, args := bindArgs m fs, ctx := c } m p.contract.ifaces.length
            | none => .decodeErr "err")
        | [] => .decodeErr "no-message-type") = .ran call m i → m.kind? = some k ∧ call.kind = k := by
    intro k' _ _ h
    cases hv : variantsOf k p.contract.methods with
    | nil => simp [hv] at h
    | cons m' rest =>
      simp only [hv] at h
      cases hd : decodeStruct false (m'.args.map fieldSpec) doc with
      | none => simp [hd] at h
      | some fs =>
        simp only [hd] at h
        cases h
        exact ⟨mem_variantsOf (by rw [hv]; simp), rfl⟩
  unfold route at h
  cases k
  · exact wrapped .exec (Or.inl rfl) rfl h
  · exact wrapped .query (Or.inr (Or.inl rfl)) rfl h
  · exact flat .instantiate (Or.inl rfl) rfl h
  · exact flat .migrate (Or.inr rfl) rfl h
  · simp at h
  · exact wrapped .sudo (Or.inr (Or.inr rfl)) rfl h

/-- corollary in the property's own words: a document sent to the `k₂` entry point never runs a `k₁` handler -/
theorem no_cross_kind (p : Program) (k₁ k₂ : Kind) (hne : k₁ ≠ k₂) (doc : Json) (c : CtxIn) (call : Call) (m : Method) (i : Nat)
    (h : route p k₂ doc c = .ran call m i) : m.kind? ≠ some k₁ := by
  intro hk
  have := (kind_separation p k₂ doc c call m i h).1
  rw [hk] at this
  exact hne (Option.some.inj this)

end C04
