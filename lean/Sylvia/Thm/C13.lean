import Sylvia.Model.Strip
/-!
# C13 — the annotated source is passed through intact

Statements about `Strip.strip`, the model of the `StripInput` fold, for every item (any number of
methods, attributes, parameters). "Intact" is spelled out clause by clause. Determinism of the real
expander is *observed* by the check (two expansions in one process, a third in another process); on the
model it is trivial (`strip` and `gen` are functions) and is not claimed as a theorem about the code.
-/
namespace C13
open Sylvia Sylvia.Strip

/-- no method is dropped, added or reordered; bodies, visibility, generics, names are untouched -/
theorem methods_intact (i : ItemS) : (strip i).methods.map (·.rest) = i.methods.map (·.rest) := by
  simp [strip, stripMethod, Function.comp_def]

theorem item_rest_intact (i : ItemS) : (strip i).rest = i.rest := rfl

/-- item level: exactly the foreign attributes survive, in order -/
theorem item_attrs (i : ItemS) : (strip i).attrs = i.attrs.filter (fun a => !isFramework a) := rfl

/-- method level: exactly the foreign attributes survive, in order -/
theorem method_attrs (i : ItemS) :
    (strip i).methods.map (·.attrs) = i.methods.map (fun m => m.attrs.filter (fun a => !isFramework a)) := by
  simp [strip, stripMethod, Function.comp_def]

/-- no framework attribute is left on the item or on any method -/
theorem no_framework_left (i : ItemS) :
    (∀ a ∈ (strip i).attrs, isFramework a = false) ∧
    (∀ m ∈ (strip i).methods, ∀ a ∈ m.attrs, isFramework a = false) := by
  constructor
  · intro a ha
    simp [strip, List.mem_filter] at ha
    exact ha.2
  · intro m hm a ha
    simp only [strip, List.mem_map] at hm
    obtain ⟨m0, _, rfl⟩ := hm
    simp [stripMethod, List.mem_filter] at ha
    exact ha.2

/-- parameters of a method that is *not* a handler are left exactly as written (attributes included) -/
theorem helper_params_intact (m : MethodS) (h : isHandler m = false) : (stripMethod m).params = m.params := by
  simp [stripMethod, h]

/-- parameters of a handler keep their pattern and type, lose every attribute; none is dropped -/
theorem handler_params (m : MethodS) (h : isHandler m = true) :
    (stripMethod m).params.map (·.text) = m.params.map (·.text) ∧
    ∀ p ∈ (stripMethod m).params, p.attrs = [] := by
  constructor
  · simp [stripMethod, h, Function.comp_def]
  · intro p hp
    simp only [stripMethod, h, if_true, List.mem_map] at hp
    obtain ⟨q, _, rfl⟩ := hp
    rfl

theorem filter_idem (l : List AttrS) :
    (l.filter (fun a => !isFramework a)).filter (fun a => !isFramework a) = l.filter (fun a => !isFramework a) := by
  simp [List.filter_filter]

/-- a stripped handler is no longer a handler (its `sv::msg` is gone) … -/
theorem stripped_not_handler (m : MethodS) (hsv : ∀ a, isMsgAttr a = true → isFramework a = true) :
    isHandler (stripMethod m) = false := by
  unfold isHandler stripMethod
  simp only [List.any_eq_false, List.mem_filter]
  intro a ⟨_, hf⟩ hm
  have := hsv a hm
  simp [this] at hf

/-- … so stripping twice is stripping once. `hsv` (`msg` is in the framework table) is the regenerated
obligation `Obl.svAttributes_documented`. -/
theorem stripMethod_idem (m : MethodS) (hsv : ∀ a, isMsgAttr a = true → isFramework a = true) :
    stripMethod (stripMethod m) = stripMethod m := by
  have hn := stripped_not_handler m hsv
  have e : stripMethod (stripMethod m) =
      { stripMethod m with attrs := (stripMethod m).attrs.filter (fun a => !isFramework a),
                           params := if isHandler (stripMethod m) then (stripMethod m).params.map (fun p => { p with attrs := [] })
                                     else (stripMethod m).params } := rfl
  rw [e, hn]
  simp only [Bool.false_eq_true, if_false]
  have : (stripMethod m).attrs.filter (fun a => !isFramework a) = (stripMethod m).attrs := by
    show (m.attrs.filter _).filter _ = m.attrs.filter _
    exact filter_idem _
  rw [this]

theorem strip_idempotent (i : ItemS) (hsv : ∀ a, isMsgAttr a = true → isFramework a = true) :
    strip (strip i) = strip i := by
  unfold strip
  simp only [filter_idem, List.map_map]
  congr 1
  apply List.map_congr_left
  intro m _
  exact stripMethod_idem m hsv

/-- non-vacuity: a helper method with a `cfg` on a parameter keeps it; a handler loses `serde(default)` -/
example :
    let helper : MethodS := { attrs := [⟨["inline"], "inline"⟩], params := [⟨[⟨["cfg"], "cfg(any())"⟩], "gone:u32"⟩], rest := "fn helper" }
    let handler : MethodS := { attrs := [⟨["sv", "msg"], "sv::msg(exec)"⟩], params := [⟨[⟨["serde"], "serde(default)"⟩], "a:u32"⟩], rest := "fn h" }
    (stripMethod helper).params = helper.params ∧ (stripMethod handler).params = [⟨[], "a:u32"⟩] := by
  decide

end C13
