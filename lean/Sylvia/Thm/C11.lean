import Sylvia.Model.Runtime
/-!
# C11 — bridging to chain-custom types preserves the response and the call

Statements about `Runtime.intoResponse`, for every response over the empty custom type (any number and
kind of sub-messages, attributes, events, data). `convertible` is the list of message kinds the `match`
in `IntoMsg::into_msg` has an arm for; the theorems need it to contain every non-custom kind
(`Complete`), which is an obligation discharged against the current source.
-/
namespace C11
open Sylvia Sylvia.Runtime

def Complete (convertible : List MsgKind) : Prop := ∀ k, k ≠ .custom → convertible.contains k = true

theorem intoMsgs_ok (cv : List MsgKind) (hc : Complete cv) : ∀ ms : List SubMsg,
    (∀ m ∈ ms, m.kind ≠ .custom) → intoMsgs cv ms = .ok ms
  | [], _ => rfl
  | m :: r, h => by
    have hm : m.kind ≠ .custom := h m (by simp)
    have hin : cv.contains m.kind = true := hc m.kind hm
    have : intoMsg cv m = .ok m := by simp only [intoMsg, hm, if_false, hin, if_true]
    simp [intoMsgs, this, intoMsgs_ok cv hc r (fun x hx => h x (by simp [hx]))]

theorem intoMsgs_err (cv : List MsgKind) (hc : Complete cv) : ∀ ms : List SubMsg,
    (∃ m ∈ ms, m.kind = .custom) → intoMsgs cv ms = .error .customEmpty
  | [], h => by obtain ⟨m, hm, _⟩ := h; simp at hm
  | m :: r, h => by
    by_cases hm : m.kind = .custom
    · simp [intoMsgs, intoMsg, hm]
    · have hin : cv.contains m.kind = true := hc m.kind hm
      have : intoMsg cv m = .ok m := by simp only [intoMsg, hm, if_false, hin, if_true]
      obtain ⟨x, hx, hxc⟩ := h
      have hx' : x ∈ r := by
        rcases List.mem_cons.mp hx with rfl | hx'
        · exact absurd hxc hm
        · exact hx'
      simp [intoMsgs, this, intoMsgs_err cv hc r ⟨x, hx', hxc⟩]

/-- **C11.** Without a custom-typed message the response reaches the caller with every sub-message (order,
id, payload, gas limit, reply trigger, content), attribute, event and the data intact. -/
theorem into_response_ok (cv : List MsgKind) (hc : Complete cv) (r : Response)
    (h : ∀ m ∈ r.messages, m.kind ≠ .custom) : intoResponse cv r = .ok r := by
  simp [intoResponse, intoMsgs_ok cv hc r.messages h]

/-- **C11.** The conversion fails — with an error and no partial response — exactly when the response
contains a custom-typed message. -/
theorem into_response_err_iff (cv : List MsgKind) (hc : Complete cv) (r : Response) :
    (∃ e, intoResponse cv r = .error e) ↔ ∃ m ∈ r.messages, m.kind = .custom := by
  constructor
  · rintro ⟨e, he⟩
    by_cases h : ∃ m ∈ r.messages, m.kind = .custom
    · exact h
    · exfalso
      have : ∀ m ∈ r.messages, m.kind ≠ .custom := fun m hm hk => h ⟨m, hm, hk⟩
      rw [into_response_ok cv hc r this] at he
      cases he
  · intro h
    exact ⟨.customEmpty, by simp [intoResponse, intoMsgs_err cv hc r.messages h]⟩

/-- non-vacuity: three messages of different kinds, ids, gas limits and triggers are preserved -/
example : ∃ r : Response, r.messages.length = 3 ∧ (∀ m ∈ r.messages, m.kind ≠ .custom) ∧ intoResponse allNonCustom r = .ok r := by
  refine ⟨{ messages := [⟨1, "p", .bank, "x", some 5, .always⟩, ⟨2, "", .wasm, "y", none, .never⟩, ⟨3, "q", .ibc, "z", some 0, .error⟩],
            attributes := [("a", "b")], events := [("e", [("k", "v")])], data := some "d" }, rfl, ?_, ?_⟩
  · intro m hm; simp at hm; rcases hm with rfl | rfl | rfl <;> simp
  · exact into_response_ok _ (by intro k hk; cases k <;> first | exact absurd rfl hk | decide) _
      (by intro m hm; simp at hm; rcases hm with rfl | rfl | rfl <;> simp)

end C11
