import Sylvia.Model.Facts
/-!
# C15 — generated message types carry exactly the generic parameters they use

`Facts.usedGenerics` models `CheckGenerics` + `MsgVariants::new`, `Facts.filterWheres` models
`filter_wheres`. "Occurs" is the visitor's notion: a path equal to the parameter anywhere in the
(Self-stripped) type tree of an argument, or of the response type for queries.
-/
namespace C15
open Sylvia Sylvia.Gen Sylvia.Facts

theorem mem_dedup {x : String} : ∀ {l : List String}, x ∈ dedup l ↔ x ∈ l
  | [] => by simp [dedup]
  | y :: r => by
    simp only [dedup, List.mem_cons, List.mem_filter]
    constructor
    · rintro (h | ⟨h, _⟩)
      · exact Or.inl h
      · exact Or.inr (mem_dedup.mp h)
    · rintro (h | h)
      · exact Or.inl h
      · by_cases e : x = y
        · exact Or.inl e
        · exact Or.inr ⟨mem_dedup.mpr h, by simpa using e⟩

theorem nodup_dedup : ∀ l : List String, (dedup l).Nodup
  | [] => by simp [dedup]
  | y :: r => by
    simp only [dedup, List.nodup_cons, List.mem_filter]
    refine ⟨by simp, (nodup_dedup r).filter _⟩

/-- **exactly the parameters that occur** -/
theorem used_iff (k : Kind) (gens : List String) (ms : List Method) (g : String) :
    g ∈ usedGenerics k gens ms ↔ g ∈ gens ∧ ∃ m ∈ ms, m.kind? = some k ∧ g ∈ methodOcc k m := by
  unfold usedGenerics usedOf
  rw [mem_dedup]
  simp only [List.mem_filter, List.mem_flatMap, variantsOf, List.contains_iff_mem]
  constructor
  · rintro ⟨⟨m, ⟨hm, hk⟩, ho⟩, hg⟩
    exact ⟨hg, m, hm, by simpa using hk, ho⟩
  · rintro ⟨hg, m, hm, hk, ho⟩
    exact ⟨⟨m, ⟨hm, by simpa using hk⟩, ho⟩, hg⟩

/-- **each once** -/
theorem used_nodup (k : Kind) (gens : List String) (ms : List Method) : (usedGenerics k gens ms).Nodup :=
  nodup_dedup _

/-- used and unused partition the user's parameters -/
theorem used_unused_partition (k : Kind) (gens : List String) (ms : List Method) (g : String) (hg : g ∈ gens) :
    (g ∈ usedGenerics k gens ms ∧ g ∉ unusedGenerics k gens ms) ∨ (g ∉ usedGenerics k gens ms ∧ g ∈ unusedGenerics k gens ms) := by
  unfold unusedGenerics
  by_cases h : g ∈ usedGenerics k gens ms
  · left; exact ⟨h, by simp [List.mem_filter, List.contains_iff_mem, h]⟩
  · right; exact ⟨h, by simp [List.mem_filter, List.contains_iff_mem, h, hg]⟩

/-- **constrained only by bounds that mention no other parameter**: a predicate is kept iff every user
parameter it mentions is used by the message type -/
theorem where_iff (gens used : List String) (ws : List WherePred) (w : WherePred) :
    w ∈ filterWheres gens used ws ↔ w ∈ ws ∧ ∀ g ∈ gens, g ∈ w.tys.flatMap occTy → g ∈ used := by
  unfold filterWheres usedOf
  simp only [List.mem_filter, List.all_eq_true, List.contains_iff_mem]
  constructor
  · rintro ⟨hw, h⟩
    refine ⟨hw, fun g hg ho => h g ?_⟩
    rw [mem_dedup]
    simp [List.mem_filter, List.contains_iff_mem, hg, ho]
  · rintro ⟨hw, h⟩
    refine ⟨hw, fun g hgm => ?_⟩
    rw [mem_dedup] at hgm
    simp only [List.mem_filter, List.contains_iff_mem] at hgm
    exact h g hgm.2 hgm.1

/-- the type, its phantom variant and the `ContractApi` alias all carry the very same parameter list -/
theorem api_consistent (k : Kind) (c : Contract) (hk : k = .exec ∨ k = .query ∨ k = .sudo) :
    (contractEnum k c).generics = (usedGenerics k (c.generics.map (·.name)) c.methods).map (genText c.generics) ∧
    (List.lookup (match k with | .exec => "Exec" | .query => "Query" | _ => "Sudo") (contractApi c)) =
      some (msgTypeName k ++ bracketed ((contractEnum k c).generics)) := by
  rcases hk with rfl | rfl | rfl <;> exact ⟨rfl, rfl⟩

/-- non-vacuity: a parameter used only inside `Option<Vec<..>>`, one used only in a query response, one unused -/
example :
    let ms : List Method := [
      { name := [], msg := some { kind := .exec }, args := [{ name := "a", ty := .path (.cons "Option" (.cons (.path (.cons "Vec" (.cons (.path (.cons "T" .nil .nil)) .nil) .nil)) .nil) .nil) }] },
      { name := [], msg := some { kind := .query }, ret := .path (.cons "StdResult" (.cons (.path (.cons "R" .nil .nil)) .nil) .nil) }]
    usedGenerics .exec ["T", "R", "X"] ms = ["T"] ∧ usedGenerics .query ["T", "R", "X"] ms = ["R"] ∧
    unusedGenerics .exec ["T", "R", "X"] ms = ["R", "X"] := by decide

end C15
