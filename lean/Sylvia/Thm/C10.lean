import Sylvia.Model.Runtime
import Sylvia.Thm.C02
/-!
# C10 — remote helpers build messages the target contract accepts and routes identically
-/
namespace C10
open Sylvia Sylvia.Runtime Sylvia.Gen Sylvia.Dispatch Sylvia.Serde

/-- the execute message is addressed to the handle's address, carries the funds set last (none if never set) and the given body -/
theorem executor_msg_fields {ι : Type} (r : Remote ι) (sets : List String) (body : String) :
    (executorBuild r sets body).contractAddr = r.addr ∧
    (executorBuild r sets body).body = body ∧
    (executorBuild r [] body).funds = "" ∧
    (∀ f, (executorBuild r (sets ++ [f]) body).funds = f) := by
  refine ⟨rfl, rfl, rfl, fun f => ?_⟩
  simp [executorBuild, executorFunds]

/-- **the body is routed by the target to that same method with equal arguments**: the helper serialises
`Api::Exec::<method>(args)`, i.e. the document of `C02.dispatch_exact`; restated here for the execute entry point -/
theorem executor_routes (p : Program) (hf : C03.ListsFaithful (parts .exec p)) (hd : C03.ListsDisjoint (parts .exec p))
    (i : Nat) (ms : List Method) (hms : (partMethods .exec p)[i]? = some ms) (vi : Nat) (m : Method) (hm : ms[vi]? = some m)
    (hwires : ((ms.map variantSpec).map (·.wire)).Nodup) (hargs : (m.args.map (·.name)).Nodup)
    (hwf : ∀ a ∈ m.args, WFTy (fieldSpec a).ty) (cs : List Json) (hlen : m.args.length = cs.length)
    (hcan : ∀ q ∈ (m.args.map fieldSpec).zip cs, decodeVal false q.1.ty q.2 = some q.2) (c : CtxIn) :
    route p .exec (encodeEnum (ms.map variantSpec) vi (pairUp (m.args.map fieldSpec) cs)) c =
      .ran { handler := partId p .exec i ++ "." ++ Casing.toString m.name, kind := .exec,
             args := pairUp (m.args.map fieldSpec) cs, ctx := c } m i :=
  C02.dispatch_exact p .exec (Or.inl rfl) hf hd i ms hms vi m hm hwires hargs hwf cs hlen hcan c

/-- same for the query helper (smart query body) -/
theorem querier_routes (p : Program) (hf : C03.ListsFaithful (parts .query p)) (hd : C03.ListsDisjoint (parts .query p))
    (i : Nat) (ms : List Method) (hms : (partMethods .query p)[i]? = some ms) (vi : Nat) (m : Method) (hm : ms[vi]? = some m)
    (hwires : ((ms.map variantSpec).map (·.wire)).Nodup) (hargs : (m.args.map (·.name)).Nodup)
    (hwf : ∀ a ∈ m.args, WFTy (fieldSpec a).ty) (cs : List Json) (hlen : m.args.length = cs.length)
    (hcan : ∀ q ∈ (m.args.map fieldSpec).zip cs, decodeVal false q.1.ty q.2 = some q.2) (c : CtxIn) :
    route p .query (encodeEnum (ms.map variantSpec) vi (pairUp (m.args.map fieldSpec) cs)) c =
      .ran { handler := partId p .query i ++ "." ++ Casing.toString m.name, kind := .query,
             args := pairUp (m.args.map fieldSpec) cs, ctx := c } m i :=
  C02.dispatch_exact p .query (Or.inr (Or.inl rfl)) hf hd i ms hms vi m hm hwires hargs hwf cs hlen hcan c

/-- instantiate builder: code id and arguments as given, label empty when unset, salt only in the salted form -/
theorem builder_defaults (msg : String) (code : Nat) :
    ({ msg := msg, codeId := code } : InstBuilder).build =
      { codeId := code, msg := msg, admin := none, label := "", funds := "", salt := none } := rfl

theorem build2_adds_salt (b : InstBuilder) (salt : String) :
    (b.build2 salt).salt = some salt ∧ { b.build2 salt with salt := none } = b.build := ⟨rfl, rfl⟩

/-- the last setter of a field wins, setters of different fields commute -/
theorem last_writer_wins (b : InstBuilder) (s t : String) :
    ((b.set (.label s)).set (.label t)) = b.set (.label t) ∧
    ((b.set (.admin s)).set (.admin t)) = b.set (.admin t) ∧
    ((b.set (.funds s)).set (.funds t)) = b.set (.funds t) := ⟨rfl, rfl, rfl⟩

theorem setters_commute (b : InstBuilder) (l a f : String) :
    (b.set (.label l)).set (.admin a) = (b.set (.admin a)).set (.label l) ∧
    (b.set (.label l)).set (.funds f) = (b.set (.funds f)).set (.label l) ∧
    (b.set (.admin a)).set (.funds f) = (b.set (.funds f)).set (.admin a) := ⟨rfl, rfl, rfl⟩

/-- what a whole setter sequence produces: per field the last value set, else the default -/
theorem setters_fold (b : InstBuilder) (ss : List Setter) :
    (ss.foldl InstBuilder.set b).msg = b.msg ∧ (ss.foldl InstBuilder.set b).codeId = b.codeId := by
  induction ss generalizing b with
  | nil => exact ⟨rfl, rfl⟩
  | cons s r ih =>
    have := ih (b.set s)
    cases s <;> simpa [InstBuilder.set] using this

/-- the admin helpers address the handle's contract -/
theorem admin_helpers {ι : Type} (r : Remote ι) (a : String) :
    r.updateAdmin a = .update r.addr a ∧ r.clearAdmin = .clear r.addr := ⟨rfl, rfl⟩

end C10
