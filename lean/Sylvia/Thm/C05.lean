import Sylvia.Lemmas.Inter4
import Sylvia.Lemmas.Lex
/-!
# C05 — name collisions between the parts of a contract-level message are rejected at build time

`Inter.assertNoIntersection` is the model of `sylvia::utils::assert_no_intersection` (a `const fn`
evaluated inside a `const _` item, so "returns `some false`" = "the contract fails to compile").
`some true` = returned normally, `some false` = panicked, `none` = fuel exhausted (shown impossible).
The theorems hold for any number of arrays of any lengths (including empty arrays and `N = 0`),
over any strict total order; `Lex.strictTotal` instantiates them with the byte-wise order of
`konst::cmp_str`.
-/
namespace C05
open Inter

variable {α : Type} [DecidableEq α] {lt : α → α → Bool}

/-- every input array is strictly increasing (sorted and duplicate-free) -/
def AllSorted (lt : α → α → Bool) (msgs : List (List α)) : Prop := ∀ m ∈ msgs, Sorted lt m

/-- The scan always terminates within the fuel it is given (total length of the arrays), and the
`unreachable!()` arm is never taken (`Inter.nextIndex_ongoing`). -/
theorem terminates (ord : StrictTotal lt) (msgs : List (List α)) :
    assertNoIntersection lt msgs ≠ none := by
  unfold assertNoIntersection
  exact loop_terminates ord _ _ (by rw [remaining_init]; exact Nat.le_refl _)

/-- A panic is never spurious: it implies a name shared by two different arrays. No sortedness needed. -/
theorem panic_sound (msgs : List (List α)) :
    assertNoIntersection lt msgs = some false → ¬ Disjoint msgs := by
  intro h hd
  exact loop_false_sound _ _ h ((fullDisjoint_init msgs).mpr hd)

/-- On sorted, duplicate-free arrays a normal return means no name is shared. -/
theorem complete (ord : StrictTotal lt) (msgs : List (List α)) (hs : AllSorted lt msgs) :
    assertNoIntersection lt msgs = some true → Disjoint msgs := by
  intro h
  exact (fullDisjoint_init msgs).mp
    (loop_true_complete ord _ _ (sortedRest_init hs) (inv_init msgs) h)

/-- **C05, overlap check.** For all tuples of sorted duplicate-free lists: compiles iff disjoint. -/
theorem spec (ord : StrictTotal lt) (msgs : List (List α)) (hs : AllSorted lt msgs) :
    assertNoIntersection lt msgs = some true ↔ Disjoint msgs := by
  constructor
  · exact complete ord msgs hs
  · intro hd
    cases h : assertNoIntersection lt msgs with
    | none => exact absurd h (terminates ord msgs)
    | some b =>
      cases b with
      | true => rfl
      | false => exact absurd hd (panic_sound msgs h)

/-- … and fails to compile iff some name is shared. -/
theorem rejects_iff (ord : StrictTotal lt) (msgs : List (List α)) (hs : AllSorted lt msgs) :
    assertNoIntersection lt msgs = some false ↔ ¬ Disjoint msgs := by
  constructor
  · exact panic_sound msgs
  · intro hnd
    cases h : assertNoIntersection lt msgs with
    | none => exact absurd h (terminates ord msgs)
    | some b =>
      cases b with
      | false => rfl
      | true => exact absurd ((spec ord msgs hs).mp h) hnd

/-- The instance used by the code: names are byte strings ordered as `konst::cmp_str` orders them. -/
theorem spec_bytes (msgs : List (List (List Nat))) (hs : AllSorted Lex.lexLt msgs) :
    assertNoIntersection Lex.lexLt msgs = some true ↔ Disjoint msgs :=
  spec Lex.strictTotal msgs hs

/-- Non-vacuity: a concrete sorted tuple with an empty array, disjoint, accepted. -/
example : AllSorted Lex.lexLt [[[97], [98, 99]], [], [[98]]] ∧
    assertNoIntersection Lex.lexLt [[[97], [98, 99]], [], [[98]]] = some true := by
  refine ⟨?_, by decide⟩
  intro m hm
  simp at hm
  rcases hm with rfl | rfl | rfl <;> simp [Sorted, Lex.lexLt]

/-- Non-vacuity: a shared name makes it panic. -/
example : assertNoIntersection Lex.lexLt [[[97], [98]], [[98]]] = some false := by decide

end C05
