import Sylvia.Extracted.ReplyNewFns
/-!
# `ReplyData::new`, on the regenerated code of `reply.rs` (C07, C08, C18)

The table entry a reply method opens: `Extracted.ReplyNewFns.ReplyData.new` is rewritten from the current source on every run, together
with the two functions it calls (`as_data_field`, `assert_no_redundant_params`); diagnostics are the list returned next to the value.
`new_spec` is the model's `Reply.newEntry`, read off the code: the data parameter is what `as_data_field` recognises; the payload
parameters are the method's parameters without the first one when a data parameter was recognised or the method is not declared for
`success` (its first parameter is then the error text / the result), all of them otherwise; the entry lists the method under its
outcome; a missing payload and a misplaced raw payload parameter are diagnosed, after the data diagnostics, in that order; nothing panics.
-/
namespace ReplyNewFn
open RustSem Extracted.ReplyOnFns Extracted.ReplyNewFns
open RustExtern (ParsedAttrs)

variable {MV MF MA Attr P D Id FT : Type} [DecidableEq FT]
  (variantFields : MV → List MF) (variantMsgAttr : MV → MA) (attrReplyOn : MA → ReplyOn)
  (fieldAttrs : MF → List Attr) (parsedAttrs : List Attr → ParsedAttrs P D) (variantFnName : MV → Id) (fieldTy : MF → FT)

def missingPayload : String :=
  "Missing payload parameter. | Expected at least one payload parameter at the end of parameter list."

/-- both callees return normally (they are total: see `Thm/ReplyParamFn.lean` for what they return) -/
theorem as_data_field_total (v : MV) :
    ∃ r, Extracted.ReplyNewFns.MsgVariant.as_data_field variantFields variantMsgAttr attrReplyOn fieldAttrs parsedAttrs variantFnName fieldTy v = .ok r := by
  unfold Extracted.ReplyNewFns.MsgVariant.as_data_field
  cases enumFind (fun f => ((parsedAttrs (fieldAttrs f)).data).isSome) (variantFields v) with
  | none => exact ⟨_, rfl⟩
  | some p =>
    obtain ⟨i, f⟩ := p
    cases hs : attrReplyOn (variantMsgAttr v) <;> cases i <;> simp <;> exact ⟨_, rfl⟩

theorem redundant_total (payload : List MF) :
    ∃ d, assert_no_redundant_params variantFields variantMsgAttr attrReplyOn fieldAttrs parsedAttrs variantFnName fieldTy payload = .ok ((), d) := by
  unfold assert_no_redundant_params
  by_cases hl : payload.length = 1
  · exact ⟨[], by simp [hl]⟩
  · simp only [hl, beq_iff_eq, if_false]
    cases enumFind (fun f => ((parsedAttrs (fieldAttrs f)).payload).isSome) payload with
    | none => exact ⟨_, rfl⟩
    | some p =>
      obtain ⟨i, f⟩ := p
      cases i <;> simp <;> exact ⟨_, rfl⟩

/-- **`ReplyData::new`** in terms of what its two callees return -/
theorem new_spec (rid : Id) (v : MV) (hid : Id) (data : Option MF) (d1 : List String) (d3 : List MF → List String)
    (h1 : Extracted.ReplyNewFns.MsgVariant.as_data_field variantFields variantMsgAttr attrReplyOn fieldAttrs parsedAttrs variantFnName fieldTy v = .ok (data, d1))
    (h3 : ∀ pl, assert_no_redundant_params variantFields variantMsgAttr attrReplyOn fieldAttrs parsedAttrs variantFnName fieldTy pl = .ok ((), d3 pl)) :
    let payload := if data.isSome || attrReplyOn (variantMsgAttr v) != ReplyOn.Success then (variantFields v).drop 1 else variantFields v
    ReplyData.new variantFields variantMsgAttr attrReplyOn fieldAttrs parsedAttrs variantFnName fieldTy rid v hid
      = .ok ({ reply_id := rid, handler_id := hid, handlers := [(variantFnName v, attrReplyOn (variantMsgAttr v))], data := data, payload := payload },
             d1 ++ (if payload.isEmpty then [missingPayload] else []) ++ d3 payload) := by
  intro payload
  unfold ReplyData.new
  simp only [h1, bind_ok, List.nil_append]
  by_cases hc : (data.isSome || attrReplyOn (variantMsgAttr v) != ReplyOn.Success) = true
  · have hp : payload = (variantFields v).drop 1 := by simp [payload, hc]
    simp only [hc, if_true, h3, bind_ok, hp]
    generalize (variantFields v).drop 1 = pl
    cases pl <;> simp [missingPayload]
  · have hc' : (data.isSome || attrReplyOn (variantMsgAttr v) != ReplyOn.Success) = false := by simpa using hc
    have hp : payload = variantFields v := by simp [payload, hc']
    simp only [hc', h3, bind_ok, hp]
    generalize variantFields v = pl
    cases pl <;> simp [missingPayload]

/-- **never panics** -/
theorem new_total (rid : Id) (v : MV) (hid : Id) :
    ∃ r, ReplyData.new variantFields variantMsgAttr attrReplyOn fieldAttrs parsedAttrs variantFnName fieldTy rid v hid = .ok r := by
  obtain ⟨⟨data, d1⟩, h1⟩ := as_data_field_total variantFields variantMsgAttr attrReplyOn fieldAttrs parsedAttrs variantFnName fieldTy v
  have h3 : ∀ pl, ∃ d, assert_no_redundant_params variantFields variantMsgAttr attrReplyOn fieldAttrs parsedAttrs variantFnName fieldTy pl = .ok ((), d) :=
    redundant_total variantFields variantMsgAttr attrReplyOn fieldAttrs parsedAttrs variantFnName fieldTy
  exact ⟨_, new_spec variantFields variantMsgAttr attrReplyOn fieldAttrs parsedAttrs variantFnName fieldTy rid v hid data d1
    (fun pl => Classical.choose (h3 pl)) h1 (fun pl => Classical.choose_spec (h3 pl))⟩

def mismatchedCount : String := "Mismatched quantity of method parameters."
def mismatchedParam : String := "Mismatched parameter in reply handlers."

/-- **`ReplyData::merge`**: a second method joins the entry opened by the first. The entry keeps its own payload parameters; the data
parameter is taken from whichever method declares one (the D4 repair); the new method is listed under its outcome after those already
there; the new method's own diagnostics come first, then a differing number of payload parameters, then every pair of payload parameters
of different type, in order. (The `#[sv::payload(raw)]` marker is not compared: D25.) -/
theorem merge_spec (e : ReplyData Id MF) (h : MV) (first : Id × ReplyOn) (rest : List (Id × ReplyOn)) (he : e.handlers = first :: rest)
    (n : ReplyData Id MF) (dn : List String)
    (hn : ReplyData.new variantFields variantMsgAttr attrReplyOn fieldAttrs parsedAttrs variantFnName fieldTy e.reply_id h e.handler_id = .ok (n, dn)) :
    ReplyData.merge variantFields variantMsgAttr attrReplyOn fieldAttrs parsedAttrs variantFnName fieldTy e h
      = .ok ({ e with data := if e.data.isNone then n.data else e.data,
                      handlers := e.handlers ++ [(variantFnName h, attrReplyOn (variantMsgAttr h))] },
             dn ++ (if e.payload.length != n.payload.length then [mismatchedCount] else [])
                ++ (List.zip e.payload n.payload).filterMap (fun (a, b) => if fieldTy a != fieldTy b then some mismatchedParam else none)) := by
  unfold ReplyData.merge
  simp only [he, List.head?, hn, bind_ok, List.nil_append]
  by_cases hl : (e.payload.length != n.payload.length) = true <;> by_cases hd : e.data.isNone = true <;>
    simp [hl, hd, he, mismatchedCount, mismatchedParam]

/-- an entry without methods is left alone (the early `return`) -/
theorem merge_empty (e : ReplyData Id MF) (h : MV) (he : e.handlers = []) :
    ReplyData.merge variantFields variantMsgAttr attrReplyOn fieldAttrs parsedAttrs variantFnName fieldTy e h = .ok (e, []) := by
  unfold ReplyData.merge
  simp [he]

end ReplyNewFn
