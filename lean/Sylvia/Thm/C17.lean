import Sylvia.Model.Facts
import Sylvia.Model.Serde
/-!
# C17 — forwarded attributes land on exactly the designated item
-/
namespace C17
open Sylvia Sylvia.Gen Sylvia.Facts Sylvia.Serde

/-- the forwarding attribute reads its kind word with the documented vocabulary (obligation `Obl.msgAttrFwd_is_msgType`) -/
def FwdFaithful : Prop := ∀ s, lookup Extracted.msgAttrFwdParse s = lookup Extracted.msgTypeNew s

/-- **type level.** An attribute forwarded with `sv::msg_attr(<kind word>, a)` is attached to the generated type
of the kind that word names and to no other; nothing else is attached besides the fixed derive block and
`rename_all`. -/
theorem msg_attr_placement (hf : FwdFaithful) (k : Kind) (c : Contract) (a : String) :
    a ∈ (contractEnum k c).attrs ↔
      (a = "serde(rename_all=\"snake_case\")" ∨ ∃ w, (w, a) ∈ c.msgAttrs ∧ lookup Extracted.msgTypeNew w = some k) := by
  unfold contractEnum forwardedTo
  simp only [List.mem_append, List.mem_filterMap, List.mem_singleton]
  constructor
  · rintro (⟨⟨w, t⟩, hm, hx⟩ | h)
    · right
      simp only at hx
      split at hx
      · rename_i hk
        cases hx
        exact ⟨w, hm, by rw [← hf w]; simpa using hk⟩
      · cases hx
    · left; exact h
  · rintro (h | ⟨w, hm, hk⟩)
    · right; exact h
    · left
      refine ⟨(w, a), hm, ?_⟩
      have : lookup Extracted.msgAttrFwdParse w = some k := by rw [hf w]; exact hk
      simp [this]

/-- same for the struct messages (instantiate / migrate) -/
theorem struct_attr_placement (hf : FwdFaithful) (k : Kind) (c : Contract) (f : MsgFact) (h : contractStruct k c = some f) (a : String) :
    a ∈ f.attrs ↔ (a = "serde(rename_all=\"snake_case\")" ∨ ∃ w, (w, a) ∈ c.msgAttrs ∧ lookup Extracted.msgTypeNew w = some k) := by
  unfold contractStruct at h
  split at h
  · cases h
    have := msg_attr_placement hf k c a
    unfold contractEnum at this
    simpa using this
  · cases h

/-- **variant level.** The attributes forwarded from a handler (`sv::attr`) are on that handler's variant,
after the `returns` attribute of queries, and on no other variant. -/
theorem variant_attr_placement (k : Kind) (m : Method) : (variantFact k m).attrs = returnsAttr k m ++ m.fwd := rfl

theorem variants_in_order (k : Kind) (c : Contract) :
    ((contractEnum k c).variants.take (variantsOf k c.methods).length).map (·.attrs) =
      (variantsOf k c.methods).map fun m => returnsAttr k m ++ m.fwd := by
  simp [contractEnum, variantFact, Function.comp_def]

/-- **field level.** An attribute written on a handler argument is on the corresponding message field. -/
theorem field_attr_placement (a : Arg) (x : String) (hx : x ∈ a.attrs) : x ∈ (fieldFact a).attrs := by
  simp [fieldFact, hx]

theorem field_attrs_exact (a : Arg) (h1 : a.data = none) (h2 : a.payloadRaw = false) : (fieldFact a).attrs = a.attrs := by
  simp [fieldFact, svAttrTexts, h1, h2]

/-- **effect.** A field is optional on the wire iff it is an `Option` or carries a forwarded `serde(default)` -/
theorem default_takes_effect (b : Bool) (ms : List (String × Json)) (f : FieldSpec) (hmiss : Json.get? ms f.name = none) :
    (decodeField b ms f).isSome ↔ (isOption f.ty = true ∨ f.dflt = true) := by
  unfold decodeField
  rw [hmiss]
  cases h1 : isOption f.ty <;> cases h2 : f.dflt <;> simp

theorem default_is_forwarded (a : Arg) : (fieldSpec a).dflt = a.attrs.contains "serde(default)" := rfl

end C17
