import Sylvia.Extracted.UtilsFns
import Sylvia.Lemmas.Inter4
import Sylvia.Lemmas.Lex
/-!
# C05 — the functions regenerated from `sylvia/src/utils.rs` refine the zipper model

`Extracted.Utils.*` is written by the function translator from the current Rust source on every run
(index-based states array, `Res` = value / panic / out of fuel). This file proves that it computes
what `Inter.loop` computes under the abstraction `absC` (state `Ongoing k` of array `m` ↦ cursor
`⟨(m.take k).reverse, m.drop k⟩`), so the theorems of `Thm/C05.lean` hold of the regenerated code.
-/
set_option linter.unusedSectionVars false
set_option linter.unusedVariables false
namespace C05R
open RustSem Extracted.Utils Inter

variable {α : Type} [DecidableEq α]

def WfS (m : List α) : State → Prop
  | .Ongoing k => k < m.length
  | .Finished k => k + 1 = m.length
  | .Empty => m = []

def absS (m : List α) : State → Cur α
  | .Ongoing k => ⟨(m.take k).reverse, m.drop k⟩
  | .Finished _ => ⟨m.reverse, []⟩
  | .Empty => ⟨[], []⟩

def absC (msgs : List (List α)) (sts : List State) : List (Cur α) := List.zipWith absS msgs sts

structure Wf (msgs : List (List α)) (sts : List State) : Prop where
  len : sts.length = msgs.length
  each : ∀ (i : Nat) (m : List α) (s : State), msgs[i]? = some m → sts[i]? = some s → WfS m s

def isOngoing : State → Bool
  | .Ongoing _ => true
  | _ => false

theorem absC_length {msgs : List (List α)} {sts : List State} (w : Wf msgs sts) : (absC msgs sts).length = msgs.length := by
  simp [absC, w.len]

theorem absC_getElem? (msgs : List (List α)) (sts : List State) (i : Nat) :
    (absC msgs sts)[i]? = match msgs[i]?, sts[i]? with
      | some m, some s => some (absS m s)
      | _, _ => none := by
  simp only [absC, List.getElem?_zipWith]
  cases msgs[i]? <;> cases sts[i]? <;> rfl

def headS (m : List α) : State → Option α
  | .Ongoing k => m[k]?
  | _ => none

def lookS (m : List α) : State → Option α
  | .Ongoing k => m[k]?
  | .Finished k => m[k]?
  | .Empty => none

theorem head_absS {m : List α} {s : State} (w : WfS m s) : (absS m s).head = headS m s := by
  cases s <;> simp [absS, Cur.head, List.head?_drop, headS]

theorem look_absS {m : List α} {s : State} (w : WfS m s) : (absS m s).look = lookS m s := by
  unfold lookS
  cases s with
  | Ongoing k =>
    have : k < m.length := w
    simp only [absS, Cur.look]
    rw [← List.getElem_cons_drop_succ_eq_drop this]
    simp [this]
  | Finished k =>
    have : k + 1 = m.length := w
    simp only [absS, Cur.look, List.head?_reverse]
    rw [List.getLast?_eq_getElem?]
    congr 1; omega
  | Empty => simp [absS, Cur.look]

theorem rest_absS {m : List α} {s : State} (w : WfS m s) :
    (absS m s).rest.isEmpty = !isOngoing s := by
  cases s with
  | Ongoing k =>
    have : k < m.length := w
    simp [absS, isOngoing]; omega
  | Finished k => simp [absS, isOngoing]
  | Empty => simp [absS, isOngoing]

/-! ### should_end -/

theorem should_end_loop (sts : List State) (N : Nat) :
    ∀ (k i : Nat), i + k = sts.length →
      should_end.loop0 N sts k i =
        if (sts.drop i).any isOngoing then .ok (.ret false) else .ok (.done ()) := by
  intro k
  induction k with
  | zero =>
    intro i h
    have hd : sts.drop i = [] := List.drop_of_length_le (by omega)
    simp [should_end.loop0, hd]
  | succ k ih =>
    intro i h
    have hi : i < sts.length := by omega
    rw [should_end.loop0, idx_of_getElem? (List.getElem?_eq_getElem hi)]
    simp only [bind_ok]
    rw [← List.getElem_cons_drop_succ_eq_drop hi]
    cases hs : sts[i] <;> simp [isOngoing, ih (i+1) (by omega)]

theorem should_end_eq (sts : List State) : should_end sts.length sts = .ok (!(sts.any isOngoing)) := by
  simp only [should_end, Nat.sub_zero, should_end_loop sts sts.length sts.length 0 (by omega), List.drop_zero]
  cases sts.any isOngoing <;> simp

theorem rest_map {msgs : List (List α)} {sts : List State} (w : Wf msgs sts) :
    (absC msgs sts).map (fun c => c.rest.isEmpty) = sts.map (fun s => !isOngoing s) := by
  apply List.ext_getElem?
  intro i
  simp only [List.getElem?_map, absC_getElem?]
  cases hm : msgs[i]? with
  | none =>
    have : sts[i]? = none := by
      rw [List.getElem?_eq_none_iff] at hm ⊢; rw [w.len]; exact hm
    simp [this]
  | some m =>
    cases hs : sts[i]? with
    | none =>
      have : msgs[i]? = none := by
        rw [List.getElem?_eq_none_iff] at hs ⊢; rw [← w.len]; exact hs
      rw [this] at hm; cases hm
    | some s => simp [rest_absS (w.each i m s hm hs)]

theorem shouldEnd_abs {msgs : List (List α)} {sts : List State} (w : Wf msgs sts) :
    shouldEnd (absC msgs sts) = !(sts.any isOngoing) := by
  have h1 : shouldEnd (absC msgs sts) = ((absC msgs sts).map (fun c => c.rest.isEmpty)).all id := by
    simp [shouldEnd, List.all_map]
  rw [h1, rest_map w]
  have : ∀ l : List State, (l.map (fun s => !isOngoing s)).all id = !(l.any isOngoing) := by
    intro l
    induction l with
    | nil => simp
    | cons a t ih => cases h : isOngoing a <;> simp_all
  exact this sts

/-! ### get_next_alphabetical_index -/

theorem absC_drop {msgs : List (List α)} {sts : List State} (w : Wf msgs sts) {i : Nat} (hi : i < sts.length) :
    ∃ (hm : i < msgs.length), (absC msgs sts).drop i = absS msgs[i] sts[i] :: (absC msgs sts).drop (i+1) := by
  have hm : i < msgs.length := by rw [← w.len]; exact hi
  refine ⟨hm, ?_⟩
  have hl : i < (absC msgs sts).length := by rw [absC_length w]; exact hm
  rw [← List.getElem_cons_drop_succ_eq_drop hl]
  congr 1
  simp [absC]

theorem hd_abs {msgs : List (List α)} {sts : List State} (w : Wf msgs sts) {i : Nat} (hi : i < sts.length)
    (hm : i < msgs.length) :
    ((absC msgs sts)[i]?).bind Cur.head = headS msgs[i] sts[i] := by
  rw [absC_getElem?, List.getElem?_eq_getElem hm, List.getElem?_eq_getElem hi]
  simp only [Option.bind_some]
  exact head_absS (w.each i _ _ (List.getElem?_eq_getElem hm) (List.getElem?_eq_getElem hi))

theorem gnai_loop {lt : α → α → Bool} {cmp : α → α → Ordering} (hcmp : ∀ a b, cmp a b = .gt ↔ lt b a = true)
    {msgs : List (List α)} {sts : List State} (w : Wf msgs sts) (N : Nat) :
    ∀ (k i out : Nat), i + k = sts.length → out ≤ i →
      get_next_alphabetical_index.loop0 cmp N msgs sts k i out =
        .ok (.done (nextIndexGo lt (absC msgs sts) out i ((absC msgs sts).drop i))) := by
  intro k
  induction k with
  | zero =>
    intro i out h ho
    have hd : (absC msgs sts).drop i = [] := List.drop_of_length_le (by rw [absC_length w, ← w.len]; omega)
    simp [get_next_alphabetical_index.loop0, hd, nextIndexGo]
  | succ k ih =>
    intro i out h ho
    have hi : i < sts.length := by omega
    have hout : out < sts.length := by omega
    obtain ⟨hm, hdrop⟩ := absC_drop w hi
    have hmo : out < msgs.length := by rw [← w.len]; exact hout
    rw [get_next_alphabetical_index.loop0, idx_of_getElem? (List.getElem?_eq_getElem hi)]
    simp only [bind_ok]
    rw [hdrop, nextIndexGo]
    have wi := w.each i _ _ (List.getElem?_eq_getElem hm) (List.getElem?_eq_getElem hi)
    have wo := w.each out _ _ (List.getElem?_eq_getElem hmo) (List.getElem?_eq_getElem hout)
    rw [head_absS wi, hd_abs w hout hmo]
    cases hs : sts[i] with
    | Ongoing oi =>
      rw [hs] at wi
      have hoi : oi < msgs[i].length := wi
      simp only [headS, List.getElem?_eq_getElem hoi]
      rw [idx_of_getElem? (List.getElem?_eq_getElem hout)]
      simp only [bind_ok]
      cases hso : sts[out] with
      | Ongoing ii =>
        rw [hso] at wo
        have hii : ii < msgs[out].length := wo
        simp only [headS, List.getElem?_eq_getElem hii]
        rw [idx_of_getElem? (List.getElem?_eq_getElem hmo), bind_ok,
            idx_of_getElem? (List.getElem?_eq_getElem hii), bind_ok,
            idx_of_getElem? (List.getElem?_eq_getElem hm), bind_ok,
            idx_of_getElem? (List.getElem?_eq_getElem hoi), bind_ok]
        by_cases hlt : lt msgs[i][oi] msgs[out][ii] = true
        · have hg : cmp msgs[out][ii] msgs[i][oi] = .gt := (hcmp _ _).mpr hlt
          simp only [hg, hlt, if_true]
          exact ih (i+1) i (by omega) (by omega)
        · have hg : cmp msgs[out][ii] msgs[i][oi] ≠ .gt := fun hg => hlt ((hcmp _ _).mp hg)
          simp only [hlt, Bool.false_eq_true, if_false]
          exact ih (i+1) out (by omega) (by omega)
      | Finished ii => simp only [headS]; exact ih (i+1) i (by omega) (by omega)
      | Empty => simp only [headS]; exact ih (i+1) i (by omega) (by omega)
    | Finished oi => simp only [headS]; exact ih (i+1) out (by omega) (by omega)
    | Empty => simp only [headS]; exact ih (i+1) out (by omega) (by omega)

theorem gnai_eq {lt : α → α → Bool} {cmp : α → α → Ordering} (hcmp : ∀ a b, cmp a b = .gt ↔ lt b a = true)
    {msgs : List (List α)} {sts : List State} (w : Wf msgs sts) :
    get_next_alphabetical_index cmp sts.length msgs sts = .ok (nextIndex lt (absC msgs sts)) := by
  simp only [get_next_alphabetical_index, Nat.sub_zero,
    gnai_loop hcmp w sts.length sts.length 0 0 (by omega) (Nat.le_refl _), bind_ok, List.drop_zero, nextIndex]

/-! ### verify_no_collissions -/

/-- the test `verify_no_collissions` performs on array `j` against the head of array `m` -/
def hits (cs : List (Cur α)) (m j : Nat) : Bool :=
  j != m && (match hd cs m with | some h => lk cs j == some h | none => false)

theorem collides_eq_any (cs : List (Cur α)) (m : Nat) :
    collides cs m = (List.range' 0 cs.length).any (hits cs m) := by
  unfold collides hits hd lk
  rw [← List.range_eq_range']
  cases (cs[m]?).bind Cur.head with
  | none => simp
  | some h => rfl

theorem lk_abs {msgs : List (List α)} {sts : List State} (w : Wf msgs sts) {i : Nat} (hi : i < sts.length)
    (hm : i < msgs.length) : lk (absC msgs sts) i = lookS msgs[i] sts[i] := by
  unfold lk
  rw [absC_getElem?, List.getElem?_eq_getElem hm, List.getElem?_eq_getElem hi]
  simp only [Option.bind_some]
  exact look_absS (w.each i _ _ (List.getElem?_eq_getElem hm) (List.getElem?_eq_getElem hi))

theorem vnc_loop {msgs : List (List α)} {sts : List State} (w : Wf msgs sts) {index : Nat} (hidx : index < sts.length) :
    ∀ (fuel i : Nat), i ≤ sts.length → sts.length - i < fuel →
      verify_no_collissions.loop0 sts.length msgs sts index fuel i =
        if (List.range' i (sts.length - i)).any (hits (absC msgs sts) index) then .panic else .ok (.done sts.length) := by
  intro fuel
  induction fuel with
  | zero => intro i _ h; omega
  | succ fuel ih =>
    intro i hle hf
    rw [verify_no_collissions.loop0]
    by_cases hi : i < sts.length
    · have hm : i < msgs.length := by rw [← w.len]; exact hi
      have hmx : index < msgs.length := by rw [← w.len]; exact hidx
      have hr : List.range' i (sts.length - i) = i :: List.range' (i+1) (sts.length - (i+1)) := by
        rw [show sts.length - i = (sts.length - (i+1)) + 1 by omega, List.range'_succ]
      have wi := w.each i _ _ (List.getElem?_eq_getElem hm) (List.getElem?_eq_getElem hi)
      have wx := w.each index _ _ (List.getElem?_eq_getElem hmx) (List.getElem?_eq_getElem hidx)
      have hhd : hd (absC msgs sts) index = headS msgs[index] sts[index] := hd_abs w hidx hmx
      have hlk := lk_abs w hi hm
      have hrec := ih (i+1) (by omega) (by omega)
      simp only [hi, if_true, hr, List.any_cons]
      generalize (List.range' (i+1) (sts.length - (i+1))).any (hits (absC msgs sts) index) = T at hrec ⊢
      by_cases hix : i = index
      · subst hix
        have hself : hits (absC msgs sts) i i = false := by simp [hits]
        cases T <;> simp [hself, hrec]
      · have hne : (i == index) = false := by simpa using hix
        simp only [hne, Bool.false_eq_true, if_false]
        rw [idx_of_getElem? (List.getElem?_eq_getElem hi), bind_ok]
        have hh : hits (absC msgs sts) index i = (match headS msgs[index] sts[index] with
            | some h => lookS msgs[i] sts[i] == some h | none => false) := by
          simp [hits, hix, hhd, hlk]
        rw [hh]
        cases hs : sts[i] with
        | Empty => cases T <;> cases headS msgs[index] sts[index] <;> simp [lookS, hrec]
        | Ongoing o =>
          rw [hs] at wi
          have ho : o < msgs[i].length := wi
          simp only [lookS, List.getElem?_eq_getElem ho]
          rw [idx_of_getElem? (List.getElem?_eq_getElem hidx), bind_ok]
          cases hsx : sts[index] with
          | Ongoing inner =>
            rw [hsx] at wx
            have hin : inner < msgs[index].length := wx
            simp only [headS, List.getElem?_eq_getElem hin]
            rw [idx_of_getElem? (List.getElem?_eq_getElem hm), bind_ok,
                idx_of_getElem? (List.getElem?_eq_getElem ho), bind_ok,
                idx_of_getElem? (List.getElem?_eq_getElem hmx), bind_ok,
                idx_of_getElem? (List.getElem?_eq_getElem hin), bind_ok]
            by_cases he : msgs[i][o] = msgs[index][inner]
            · simp [he]
            · cases T <;> simp [he, hrec]
          | Finished _ => cases T <;> simp [headS, hrec]
          | Empty => cases T <;> simp [headS, hrec]
        | Finished o =>
          rw [hs] at wi
          have ho : o < msgs[i].length := by have : o + 1 = msgs[i].length := wi; omega
          simp only [lookS, List.getElem?_eq_getElem ho]
          rw [idx_of_getElem? (List.getElem?_eq_getElem hidx), bind_ok]
          cases hsx : sts[index] with
          | Ongoing inner =>
            rw [hsx] at wx
            have hin : inner < msgs[index].length := wx
            simp only [headS, List.getElem?_eq_getElem hin]
            rw [idx_of_getElem? (List.getElem?_eq_getElem hm), bind_ok,
                idx_of_getElem? (List.getElem?_eq_getElem ho), bind_ok,
                idx_of_getElem? (List.getElem?_eq_getElem hmx), bind_ok,
                idx_of_getElem? (List.getElem?_eq_getElem hin), bind_ok]
            by_cases he : msgs[i][o] = msgs[index][inner]
            · simp [he]
            · cases T <;> simp [he, hrec]
          | Finished _ => cases T <;> simp [headS, hrec]
          | Empty => cases T <;> simp [headS, hrec]
    · have : i = sts.length := by omega
      subst this
      simp

theorem vnc_eq {msgs : List (List α)} {sts : List State} (w : Wf msgs sts) {index : Nat} (hidx : index < sts.length)
    {fuel : Nat} (hf : sts.length < fuel) :
    verify_no_collissions fuel sts.length msgs sts index =
      if collides (absC msgs sts) index then .panic else .ok () := by
  rw [verify_no_collissions, vnc_loop w hidx fuel 0 (by omega) (by omega), Nat.sub_zero,
    collides_eq_any, absC_length w, ← w.len]
  split <;> simp

/-! ### the state update, `init_states`, and the main loop -/

theorem advance_absS {m : List α} {wi : Nat} (h : wi < m.length) :
    (absS m (.Ongoing wi)).advance =
      absS m (if m.length == wi + 1 then State.Finished wi else State.Ongoing (wi + 1)) := by
  have hd : m.drop wi = m[wi] :: m.drop (wi+1) := (List.getElem_cons_drop_succ_eq_drop h).symm
  have htk : (m.take (wi+1)).reverse = m[wi] :: (m.take wi).reverse := by
    rw [List.take_succ_eq_append_getElem h]; simp
  by_cases he : m.length = wi + 1
  · have hb : (m.length == wi + 1) = true := by simpa using he
    rw [hb, if_pos rfl]
    have ht : m.take (wi+1) = m := List.take_of_length_le (by omega)
    have hdr : m.drop (wi+1) = [] := List.drop_of_length_le (by omega)
    rw [ht] at htk
    show Cur.advance ⟨(m.take wi).reverse, m.drop wi⟩ = ⟨m.reverse, []⟩
    rw [hd, htk, ← hdr]; rfl
  · have hb : (m.length == wi + 1) = false := by simpa using he
    rw [hb, if_neg (by simp)]
    show Cur.advance ⟨(m.take wi).reverse, m.drop wi⟩ = ⟨(m.take (wi+1)).reverse, m.drop (wi+1)⟩
    rw [hd, htk]; rfl

theorem upd_abs {msgs : List (List α)} {sts : List State} (w : Wf msgs sts) {index wi : Nat}
    (hidx : index < sts.length) (hmx : index < msgs.length) (hs : sts[index] = .Ongoing wi) (s' : State)
    (hs' : s' = if msgs[index].length == wi + 1 then State.Finished wi else State.Ongoing (wi + 1)) :
    Wf msgs (sts.set index s') ∧ absC msgs (sts.set index s') = step (absC msgs sts) index := by
  have wx := w.each index _ _ (List.getElem?_eq_getElem hmx) (List.getElem?_eq_getElem hidx)
  rw [hs] at wx
  have hwi : wi < msgs[index].length := wx
  constructor
  · refine ⟨by simp [w.len], ?_⟩
    intro i m s hm hsi
    rw [List.getElem?_set] at hsi
    by_cases hi : index = i
    · subst hi
      simp only [if_true, hidx] at hsi
      cases hsi
      have : m = msgs[index] := by rw [List.getElem?_eq_getElem hmx] at hm; cases hm; rfl
      subst this
      rw [hs']
      by_cases he : msgs[index].length = wi + 1
      · simp [he, WfS]
      · have : (msgs[index].length == wi + 1) = false := by simpa using he
        simp only [this, Bool.false_eq_true, if_false, WfS]; omega
    · simp only [hi, if_false] at hsi
      exact w.each i m s hm hsi
  · apply List.ext_getElem?
    intro j
    rw [step_getElem?, absC_getElem?, absC_getElem?, List.getElem?_set]
    by_cases hj : index = j
    · subst hj
      simp only [if_true, hidx, List.getElem?_eq_getElem hmx, List.getElem?_eq_getElem hidx, Option.map_some, hs]
      rw [advance_absS hwi, hs']
    · simp only [hj, if_false]
      cases msgs[j]? <;> cases sts[j]? <;> simp

def initS (m : List α) : State := if m.isEmpty then State.Empty else State.Ongoing 0

theorem init_loop (msgs : List (List α)) (N : Nat) :
    ∀ (k i : Nat), i + k = msgs.length →
      init_states.loop0 N msgs k i ((msgs.take i).map initS ++ List.replicate k (State.Ongoing 0)) =
        .ok (.done (msgs.map initS)) := by
  intro k
  induction k with
  | zero =>
    intro i h
    have h1 : msgs.take i = msgs := List.take_of_length_le (by omega)
    simp [init_states.loop0, h1]
  | succ k ih =>
    intro i h
    have hi : i < msgs.length := by omega
    have hlen : ((msgs.take i).map initS).length = i := by simp; omega
    have hnext : (msgs.take (i+1)).map initS = (msgs.take i).map initS ++ [initS msgs[i]] := by
      rw [List.take_succ_eq_append_getElem hi, List.map_append]; rfl
    rw [init_states.loop0, idx_of_getElem? (List.getElem?_eq_getElem hi), bind_ok]
    have hrec := ih (i+1) (by omega)
    rw [hnext] at hrec
    by_cases he : msgs[i].isEmpty = true
    · simp only [he, if_true]
      rw [setIdx_of_lt _ (by simp; omega), bind_ok]
      have hset : ((msgs.take i).map initS ++ List.replicate (k+1) (State.Ongoing 0)).set i State.Empty
          = ((msgs.take i).map initS ++ [initS msgs[i]]) ++ List.replicate k (State.Ongoing 0) := by
        rw [List.set_append_right _ _ (by omega), hlen, Nat.sub_self, List.replicate_succ]
        simp [initS, he]
      rw [hset]; exact hrec
    · have he' : msgs[i].isEmpty = false := by simpa using he
      simp only [he', Bool.false_eq_true, if_false]
      have hsame : (msgs.take i).map initS ++ List.replicate (k+1) (State.Ongoing 0)
          = ((msgs.take i).map initS ++ [initS msgs[i]]) ++ List.replicate k (State.Ongoing 0) := by
        rw [List.replicate_succ]; simp [initS, he']
      rw [hsame]; exact hrec

theorem init_eq (msgs : List (List α)) : init_states msgs.length msgs = .ok (msgs.map initS) := by
  have := init_loop msgs msgs.length msgs.length 0 (by omega)
  simp only [List.take_zero, List.map_nil, List.nil_append] at this
  simp [init_states, this]

theorem init_wf (msgs : List (List α)) : Wf msgs (msgs.map initS) ∧ absC msgs (msgs.map initS) = Inter.init msgs := by
  constructor
  · refine ⟨by simp, ?_⟩
    intro i m s hm hs
    rw [List.getElem?_map, hm] at hs
    cases hs
    unfold initS
    cases m <;> simp [WfS]
  · apply List.ext_getElem?
    intro j
    rw [absC_getElem?, init_getElem?, List.getElem?_map]
    cases msgs[j]? with
    | none => rfl
    | some m => cases m <;> simp [initS, absS]

def toRes : Option Bool → Res Unit
  | none => .oof
  | some true => .ok ()
  | some false => .panic

def void {σ : Type} : Res (LoopOut σ Unit) → Res Unit
  | .ok _ => .ok ()
  | .panic => .panic
  | .oof => .oof

theorem hd_lt_length {cs : List (Cur α)} {m : Nat} {h : α} (hh : hd cs m = some h) : m < cs.length := by
  unfold hd at hh
  cases hc : cs[m]? with
  | none => rw [hc] at hh; cases hh
  | some c => exact (List.getElem?_eq_some_iff.mp hc).1

/-- **Main loop.** Whenever the zipper model decides (within `fuel`), the regenerated loop decides the same
(with one more unit of fuel: a translated `while` spends one unit on the final test of its condition). -/
theorem main_loop {lt : α → α → Bool} {cmp : α → α → Ordering} (ord : StrictTotal lt)
    (hcmp : ∀ a b, cmp a b = .gt ↔ lt b a = true) {msgs : List (List α)} {fuel0 : Nat} (hf0 : msgs.length < fuel0) :
    ∀ (fuel : Nat) (sts : List State) (b : Bool), Wf msgs sts → Inter.loop lt fuel (absC msgs sts) = some b →
      void (assert_no_intersection.loop0 cmp fuel0 msgs.length msgs (fuel+1) sts) = toRes (some b) := by
  intro fuel
  induction fuel with
  | zero =>
    intro sts b w h
    unfold Inter.loop at h
    split at h
    · rename_i he
      cases h
      rw [assert_no_intersection.loop0, ← w.len, should_end_eq, bind_ok, ← shouldEnd_abs w, he]
      rfl
    · cases h
  | succ n ih =>
    intro sts b w h
    unfold Inter.loop at h
    rw [assert_no_intersection.loop0, ← w.len, should_end_eq, bind_ok, ← shouldEnd_abs w]
    split at h
    · rename_i he
      cases h
      rw [he]; rfl
    · rename_i he
      have he' : shouldEnd (absC msgs sts) = false := by simpa using he
      obtain ⟨x, hx⟩ := nextIndex_ongoing ord he'
      have hidxc := hd_lt_length hx
      have hidx : nextIndex lt (absC msgs sts) < sts.length := by rw [absC_length w, ← w.len] at hidxc; exact hidxc
      have hmx : nextIndex lt (absC msgs sts) < msgs.length := by rw [← w.len]; exact hidx
      simp only [he', Bool.not_false, if_true]
      rw [gnai_eq hcmp w, bind_ok, vnc_eq w hidx (by rw [w.len]; exact hf0)]
      simp only at h
      split at h
      · rename_i hc
        cases h
        simp [hc, void, toRes]
      · rename_i hc
        have hc' : collides (absC msgs sts) (nextIndex lt (absC msgs sts)) = false := by simpa using hc
        simp only [hc', Bool.false_eq_true, if_false, bind_ok]
        rw [idx_of_getElem? (List.getElem?_eq_getElem hidx), bind_ok]
        have hhd : headS msgs[nextIndex lt (absC msgs sts)] sts[nextIndex lt (absC msgs sts)] = some x := by
          rw [← hd_abs w hidx hmx]; exact hx
        generalize hm : nextIndex lt (absC msgs sts) = m at *
        cases hs : sts[m] with
        | Ongoing wi =>
          simp only
          rw [idx_of_getElem? (List.getElem?_eq_getElem hmx), bind_ok]
          by_cases hl : msgs[m].length = wi + 1
          · have hb : (msgs[m].length == wi + 1) = true := by simpa using hl
            obtain ⟨w', ha⟩ := upd_abs w hidx hmx hs (State.Finished wi) (by rw [hb]; rfl)
            simp only [hb, if_true]
            rw [setIdx_of_lt _ hidx, bind_ok]
            rw [← ha] at h
            have := ih _ b w' h
            rw [w.len]; exact this
          · have hb : (msgs[m].length == wi + 1) = false := by simpa using hl
            obtain ⟨w', ha⟩ := upd_abs w hidx hmx hs (State.Ongoing (wi+1)) (by rw [hb]; rfl)
            simp only [hb, Bool.false_eq_true, if_false]
            rw [setIdx_of_lt _ hidx, bind_ok]
            rw [← ha] at h
            have := ih _ b w' h
            rw [w.len]; exact this
        | Finished k => rw [hs] at hhd; simp [headS] at hhd
        | Empty => rw [hs] at hhd; simp [headS] at hhd

/-! ### the function as a whole -/

/-- `assert_no_intersection::<N>(msgs)` with `N = msgs.len()` (Rust fixes `N` by the argument's type) -/
theorem top {lt : α → α → Bool} {cmp : α → α → Ordering} (ord : StrictTotal lt)
    (hcmp : ∀ a b, cmp a b = .gt ↔ lt b a = true) (msgs : List (List α)) (fuel : Nat) (hf : msgs.length < fuel)
    (b : Bool) (h : Inter.loop lt (fuel - 1) (Inter.init msgs) = some b) :
    assert_no_intersection cmp fuel msgs.length msgs = toRes (some b) := by
  obtain ⟨w, ha⟩ := init_wf msgs
  rw [← ha] at h
  have hm := main_loop ord hcmp hf (fuel - 1) _ b w h
  rw [show fuel - 1 + 1 = fuel by omega] at hm
  rw [assert_no_intersection, init_eq, bind_ok]
  revert hm
  cases assert_no_intersection.loop0 cmp fuel msgs.length msgs fuel (msgs.map initS) with
  | ok out => cases out <;> cases b <;> simp [void, toRes]
  | panic => cases b <;> simp [void, toRes]
  | oof => cases b <;> simp [void, toRes]

/-- **C05 on the regenerated code.** For every number and length of sorted duplicate-free arrays, over any strict
total order agreeing with `cmp_str`, and any fuel above the number of arrays and their total length: the translated
`assert_no_intersection` returns normally iff the arrays are pairwise disjoint, panics iff they are not, and never
runs out of fuel. In particular no index is ever out of bounds and `unreachable!()` is never reached. -/
theorem code_spec {lt : α → α → Bool} {cmp : α → α → Ordering} (ord : StrictTotal lt)
    (hcmp : ∀ a b, cmp a b = .gt ↔ lt b a = true) (msgs : List (List α)) (hs : ∀ m ∈ msgs, Sorted lt m)
    (fuel : Nat) (hf1 : msgs.length < fuel) (hf2 : (msgs.map List.length).sum < fuel) :
    (assert_no_intersection cmp fuel msgs.length msgs = .ok () ↔ Inter.Disjoint msgs) ∧
    (assert_no_intersection cmp fuel msgs.length msgs = .panic ↔ ¬ Inter.Disjoint msgs) ∧
    assert_no_intersection cmp fuel msgs.length msgs ≠ .oof := by
  have hne : Inter.loop lt (fuel - 1) (Inter.init msgs) ≠ none :=
    loop_terminates ord _ _ (by rw [remaining_init]; omega)
  cases hb : Inter.loop lt (fuel - 1) (Inter.init msgs) with
  | none => exact absurd hb hne
  | some b =>
    have ht := top ord hcmp msgs fuel hf1 b hb
    cases b with
    | true =>
      have hd : Inter.Disjoint msgs :=
        (fullDisjoint_init msgs).mp (loop_true_complete ord _ _ (sortedRest_init hs) (inv_init msgs) hb)
      rw [ht]
      simp [toRes, hd]
    | false =>
      have hd : ¬ Inter.Disjoint msgs := fun hd => loop_false_sound _ _ hb ((fullDisjoint_init msgs).mpr hd)
      rw [ht]
      simp [toRes, hd]

/-- A panic of the translated code is never spurious, sorted input or not: it implies a shared name. Hence the
index expressions and the `unreachable!()` arm cannot be what panics on disjoint input. -/
theorem code_panic_sound {lt : α → α → Bool} {cmp : α → α → Ordering} (ord : StrictTotal lt)
    (hcmp : ∀ a b, cmp a b = .gt ↔ lt b a = true) (msgs : List (List α))
    (fuel : Nat) (hf1 : msgs.length < fuel) (hf2 : (msgs.map List.length).sum < fuel) :
    assert_no_intersection cmp fuel msgs.length msgs = .panic → ¬ Inter.Disjoint msgs := by
  intro hp hd
  have hne : Inter.loop lt (fuel - 1) (Inter.init msgs) ≠ none :=
    loop_terminates ord _ _ (by rw [remaining_init]; omega)
  cases hb : Inter.loop lt (fuel - 1) (Inter.init msgs) with
  | none => exact absurd hb hne
  | some b =>
    have ht := top ord hcmp msgs fuel hf1 b hb
    cases b with
    | true => rw [ht] at hp; simp [toRes] at hp
    | false => exact loop_false_sound _ _ hb ((fullDisjoint_init msgs).mpr hd)

theorem cmpBytes_gt (a b : List Nat) : Lex.cmpBytes a b = .gt ↔ Lex.lexLt b a = true := by
  unfold Lex.cmpBytes
  by_cases h1 : Lex.lexLt a b = true
  · have h2 : Lex.lexLt b a = false := by
      cases h : Lex.lexLt b a with
      | false => rfl
      | true =>
        have := Lex.strictTotal.trans a b a h1 h
        rw [Lex.strictTotal.irrefl] at this; cases this
    simp [h1, h2]
  · have h1' : Lex.lexLt a b = false := by simpa using h1
    cases h : Lex.lexLt b a <;> simp [h1']

/-- the instance the code runs: names as byte strings -/
theorem code_spec_bytes (msgs : List (List (List Nat))) (hs : ∀ m ∈ msgs, Sorted Lex.lexLt m)
    (fuel : Nat) (hf1 : msgs.length < fuel) (hf2 : (msgs.map List.length).sum < fuel) :
    (assert_no_intersection Lex.cmpBytes fuel msgs.length msgs = .ok () ↔ Inter.Disjoint msgs) ∧
    (assert_no_intersection Lex.cmpBytes fuel msgs.length msgs = .panic ↔ ¬ Inter.Disjoint msgs) ∧
    assert_no_intersection Lex.cmpBytes fuel msgs.length msgs ≠ .oof :=
  code_spec Lex.strictTotal cmpBytes_gt msgs hs fuel hf1 hf2

/-- Non-vacuity / sanity: the regenerated code on concrete tuples. -/
example : assert_no_intersection Lex.cmpBytes 10 3 [[[97], [98, 99]], [], [[98]]] = .ok () := by decide +kernel
example : assert_no_intersection Lex.cmpBytes 10 2 [[[97], [98]], [[98]]] = .panic := by decide +kernel
example : assert_no_intersection Lex.cmpBytes 10 0 ([] : List (List (List Nat))) = .ok () := by decide +kernel

end C05R
