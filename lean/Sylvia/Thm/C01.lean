import Sylvia.Lemmas.Casing
import Sylvia.Lemmas.SerdeRoundTrip
import Sylvia.Model.Gen
/-!
# C01 — generated messages have the JSON shape named by the method signature
-/
namespace C01
open Sylvia Sylvia.Gen Sylvia.Serde Casing

/-- **Wire name.** For every method name in the property's shape (lower-case words, each optionally
ending in digits, joined by single underscores) the name serde puts on the wire is the method name. -/
theorem wire_name_is_method_name (w : Word) (ws : List Word) (m : Method) (hm : m.name = render (w :: ws)) :
    wireName m = Casing.toString (render (w :: ws)) := by
  unfold wireName variantName
  rw [hm, wire_name_shape]

/-- **Shape.** An enum message serialises to an object with exactly one key, the variant's wire name,
whose value is the object of its fields (one member per argument, keyed by the argument's name, in order). -/
theorem encode_shape (k : Kind) (ms : List Method) (i : Nat) (m : Method)
    (hm : (variantsOf k ms)[i]? = some m) (cs : List Json) :
    encodeEnum (variantSpecs k ms) i (pairUp (m.args.map fieldSpec) cs) =
      .obj [(wireName m, .obj (pairUp (m.args.map fieldSpec) cs))] ∧
    (m.args.length = cs.length → (pairUp (m.args.map fieldSpec) cs).map Prod.fst = m.args.map (·.name)) := by
  constructor
  · unfold encodeEnum variantSpecs
    simp [List.getElem?_map, hm, variantSpec]
  · intro hlen
    rw [keys_pairUp _ _ (by simpa using hlen)]
    simp [fieldSpec, Function.comp_def]

/-- one variant per annotated method of the kind, in source order, and no other -/
theorem variants_are_methods_of_kind (k : Kind) (ms : List Method) :
    (variantSpecs k ms).map (·.wire) = (ms.filter (fun m => m.kind? == some k)).map wireName := by
  simp [variantSpecs, variantsOf, variantSpec, Function.comp_def]

/-- **Round trip.** Parsing the JSON of a message gives back an equal message (same variant, same field
values), for every program whose wire names are distinct within the type and every canonical value list. -/
theorem decode_encode (k : Kind) (ms : List Method) (i : Nat) (m : Method)
    (hm : (variantsOf k ms)[i]? = some m)
    (hwires : ((variantSpecs k ms).map (·.wire)).Nodup)
    (hargs : (m.args.map (·.name)).Nodup)
    (cs : List Json) (hlen : m.args.length = cs.length)
    (hcan : ∀ q ∈ (m.args.map fieldSpec).zip cs, decodeVal false q.1.ty q.2 = some q.2) :
    decodeEnum false (variantSpecs k ms) (encodeEnum (variantSpecs k ms) i (pairUp (m.args.map fieldSpec) cs))
      = some (i, pairUp (m.args.map fieldSpec) cs) := by
  have hv : (variantSpecs k ms)[i]? = some (variantSpec m) := by simp [variantSpecs, List.getElem?_map, hm]
  have := decodeEnum_encodeEnum false (variantSpecs k ms) i (variantSpec m) cs hv hwires
    (by simpa [variantSpec] using hlen)
    (by simpa [variantSpec, fieldSpec, Function.comp_def] using hargs)
    (by simpa [variantSpec] using hcan)
  simpa [variantSpec] using this

/-- instantiate / migrate: the flat object of the arguments round-trips -/
theorem struct_decode_encode (m : Method) (hargs : (m.args.map (·.name)).Nodup)
    (cs : List Json) (hlen : m.args.length = cs.length)
    (hcan : ∀ q ∈ (m.args.map fieldSpec).zip cs, decodeVal false q.1.ty q.2 = some q.2) :
    decodeStruct false (m.args.map fieldSpec) (.obj (pairUp (m.args.map fieldSpec) cs))
      = some (pairUp (m.args.map fieldSpec) cs) := by
  unfold decodeStruct
  exact decodeFields_pairUp false _ cs (by simpa using hlen)
    (by simpa [fieldSpec, Function.comp_def] using hargs) hcan

/-- **No other name.** A message type accepts a document only under the wire name of one of its variants. -/
theorem accepts_only_declared_names (k : Kind) (ms : List Method) (d : Json)
    (r : Nat × List (String × Json))
    (h : decodeEnum false (variantSpecs k ms) d = some r) :
    ∃ key body, d = .obj [(key, body)] ∧ ∃ m ∈ ms, m.kind? = some k ∧ wireName m = key := by
  obtain ⟨key, body, hd, hk⟩ := decodeEnum_key false _ d r h
  refine ⟨key, body, hd, ?_⟩
  simp only [variantSpecs, variantsOf, List.map_map, List.mem_map, List.mem_filter] at hk
  obtain ⟨m, ⟨hm, hkind⟩, hw⟩ := hk
  exact ⟨m, hm, by simpa using hkind, by simpa [variantSpec] using hw⟩

end C01
