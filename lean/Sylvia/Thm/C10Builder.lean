import Sylvia.Extracted.BuilderFns
/-!
# C10 — the instantiate builder, on the regenerated code

`Extracted.Builder.*` is written by the function translator from `sylvia/src/builder/instantiate.rs` on every run
(`Binary`, `Coin` opaque; `WasmMsg` declared in `Model/RustExtern.lean`). The builder clauses of C10 are proved about it:
defaults, every setter changes exactly its own field, the last writer wins, setters of different fields commute, and the two
build functions copy every field (the salted one adds the salt and nothing else). No function can panic.
-/
namespace C10B
open RustSem RustExtern Extracted.Builder

variable {Binary Coin : Type}

/-- a setter call, abstractly -/
inductive Set (Coin : Type) | label (s : String) | admin (s : String) | funds (f : List Coin)

def apply (b : InstantiateBuilder Binary Coin) : Set Coin → Res (InstantiateBuilder Binary Coin)
  | .label s => b.with_label s
  | .admin s => b.with_admin s
  | .funds f => b.with_funds f

/-- what a setter does, as a plain function on the record -/
def spec (b : InstantiateBuilder Binary Coin) : Set Coin → InstantiateBuilder Binary Coin
  | .label s => { b with label := some s }
  | .admin s => { b with admin := some s }
  | .funds f => { b with funds := f }

/-- **every setter succeeds and changes exactly its own field** -/
theorem apply_eq (b : InstantiateBuilder Binary Coin) (s : Set Coin) : apply b s = .ok (spec b s) := by
  cases s <;> rfl

/-- **defaults**: no admin, empty label, no funds, the given code id and body -/
theorem new_build (msg : Binary) (code : Nat) :
    (InstantiateBuilder.new (Coin := Coin) msg code).bind InstantiateBuilder.build =
      .ok (WasmMsg.Instantiate (admin := none) (code_id := code) (msg := msg) (funds := []) (label := "")) := rfl

/-- **the built message copies every field** (an unset label is the empty string) -/
theorem build_eq (b : InstantiateBuilder Binary Coin) :
    b.build = .ok (WasmMsg.Instantiate (admin := b.admin) (code_id := b.code_id) (msg := b.msg) (funds := b.funds) (label := b.label.getD "")) := rfl

/-- **the salted build adds the salt and nothing else** -/
theorem build2_eq (b : InstantiateBuilder Binary Coin) (salt : Binary) :
    b.build2 salt = .ok (WasmMsg.Instantiate2 (admin := b.admin) (code_id := b.code_id) (label := b.label.getD "") (msg := b.msg)
      (funds := b.funds) (salt := salt)) := rfl

/-- the field a setter writes -/
def Set.field : Set Coin → Nat
  | .label _ => 0 | .admin _ => 1 | .funds _ => 2

/-- **last writer wins** -/
theorem last_writer_wins (b : InstantiateBuilder Binary Coin) (s t : Set Coin) (h : s.field = t.field) :
    spec (spec b s) t = spec b t := by
  cases s <;> cases t <;> first | rfl | (simp [Set.field] at h)

/-- **setters of different fields commute** -/
theorem setters_commute (b : InstantiateBuilder Binary Coin) (s t : Set Coin) (h : s.field ≠ t.field) :
    spec (spec b s) t = spec (spec b t) s := by
  cases s <;> cases t <;> first | rfl | (simp [Set.field] at h)

/-- a whole sequence of setter calls: never fails, equals the fold of the plain record updates -/
def applyAll (b : InstantiateBuilder Binary Coin) : List (Set Coin) → Res (InstantiateBuilder Binary Coin)
  | [] => .ok b
  | s :: r => (apply b s).bind fun b' => applyAll b' r

theorem applyAll_eq (b : InstantiateBuilder Binary Coin) (ss : List (Set Coin)) : applyAll b ss = .ok (ss.foldl spec b) := by
  induction ss generalizing b with
  | nil => rfl
  | cons s r ih => simp [applyAll, apply_eq, ih]

/-- **label, admin and funds of the built message are those of the last setter call of each kind** (or the defaults) -/
theorem built_fields (msg : Binary) (code : Nat) (ss : List (Set Coin)) :
    let b := ss.foldl spec ({ msg := msg, code_id := code, admin := none, label := none, funds := [] } : InstantiateBuilder Binary Coin)
    b.msg = msg ∧ b.code_id = code := by
  have : ∀ (b : InstantiateBuilder Binary Coin), (ss.foldl spec b).msg = b.msg ∧ (ss.foldl spec b).code_id = b.code_id := by
    induction ss with
    | nil => intro b; exact ⟨rfl, rfl⟩
    | cons s r ih => intro b; have := ih (spec b s); cases s <;> simpa [List.foldl, spec] using this
  exact this _

/-- non-vacuity: label then funds then label again -/
example : (applyAll (Binary := Nat) (Coin := Nat) ⟨7, 3, none, none, []⟩ [.label "a", .funds [5], .label "b"]).bind InstantiateBuilder.build
    = .ok (WasmMsg.Instantiate (admin := none) (code_id := 3) (msg := 7) (funds := [5]) (label := "b")) := rfl

end C10B
