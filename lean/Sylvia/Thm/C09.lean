import Sylvia.Model.Reply
import Sylvia.Extracted.Tables
/-!
# C09 — reply data is extracted according to the declared data mode

`Reply.extractData` is driven by the template class the regenerated guard chain selects for the flags of
`#[sv::data(..)]`. `guards_documented` pins the chain read from the current source to the documented
one; the mode table is then proved for all data bytes and all envelope-parser outcomes (the parsers of
cw_utils are a parameter: `Envelope`).
-/
namespace C09
open Sylvia Sylvia.Reply

/-- the documented guard chain: (raw∧opt) identity, raw, (instantiate∧opt), instantiate, opt, default -/
def documentedGuards : List (Bool × Bool × Bool × Nat × Nat × Bool) :=
  [(true, true, false, 0, 0, false), (true, false, false, 0, 2, false), (false, true, true, 2, 1, true),
   (false, false, true, 2, 2, false), (false, true, false, 1, 1, true), (false, false, false, 1, 2, false)]

/-- obligation over the regenerated table: order and content of the guards in the current source -/
theorem guards_documented : Extracted.dataGuards = documentedGuards := by decide

def cls (p : DataParams) := dataClass documentedGuards p

/-- raw modes pass the bytes through; the optional one also passes absence through -/
theorem raw_opt_mode (d : Option String) (env : Envelope) :
    extractData (cls { raw := true, opt := true }) d env = .ok (.rawOpt d) := by
  cases d <;> rfl

theorem raw_mode (env : Envelope) :
    (∀ d, extractData (cls { raw := true }) (some d) env = .ok (.raw d)) ∧
    extractData (cls { raw := true }) none env = .error .missingData := ⟨fun _ => rfl, rfl⟩

/-- typed mode (`#[sv::data]`): execute envelope, then the JSON inside; absence and undecodable data are errors -/
theorem typed_mode (d : String) :
    extractData (cls {}) none .bad = .error .missingData ∧
    (∀ j, extractData (cls {}) (some d) (.exec (some j)) = .ok (.typed j)) ∧
    extractData (cls {}) (some d) (.exec none) = .error .missingData ∧
    extractData (cls {}) (some d) .bad = .error .badEnvelope ∧
    (∀ a i, extractData (cls {}) (some d) (.inst a i) = .error .badEnvelope) :=
  ⟨rfl, fun _ => rfl, rfl, rfl, fun _ _ => rfl⟩

/-- `opt`: absence becomes `None`, present data is decoded like the typed mode and wrapped in `Some` -/
theorem opt_mode (d : String) (env : Envelope) :
    extractData (cls { opt := true }) none env = .ok (.typedOpt none) ∧
    (∀ j, extractData (cls { opt := true }) (some d) (.exec (some j)) = .ok (.typedOpt (some j))) ∧
    extractData (cls { opt := true }) (some d) .bad = .error .badEnvelope :=
  ⟨rfl, fun _ => rfl, rfl⟩

/-- instantiate modes use the instantiate envelope -/
theorem instantiate_mode (d : String) :
    extractData (cls { instantiate := true }) none .bad = .error .missingData ∧
    (∀ a i, extractData (cls { instantiate := true }) (some d) (.inst a i) = .ok (.inst a i)) ∧
    extractData (cls { instantiate := true }) (some d) .bad = .error .badEnvelope ∧
    (∀ j, extractData (cls { instantiate := true }) (some d) (.exec j) = .error .badEnvelope) :=
  ⟨rfl, fun _ _ => rfl, rfl, fun _ => rfl⟩

theorem instantiate_opt_mode (d : String) (env : Envelope) :
    extractData (cls { instantiate := true, opt := true }) none env = .ok (.instOpt none) ∧
    (∀ a i, extractData (cls { instantiate := true, opt := true }) (some d) (.inst a i) = .ok (.instOpt (some (a, i)))) ∧
    extractData (cls { instantiate := true, opt := true }) (some d) .bad = .error .badEnvelope :=
  ⟨rfl, fun _ _ => rfl, rfl⟩

/-- **No call on failure.** Whenever the extraction fails, `dispatch_reply` returns that error and no
handler is invoked (the outcome is not a `call`). -/
theorem extract_err_no_call (guards : List (Bool × Bool × Bool × Nat × Nat × Bool)) (tbl : List Entry) (e : Entry)
    (r : ReplyIn) (env : Envelope) (he : tbl[r.id]? = some e) (fn : Name)
    (hf : e.handlers.find? (fun p => p.2 == .success || p.2 == .always) = some (fn, .success))
    (a : Arg) (hd : e.data = some a) (ev msgr : Nat) (data : Option String) (hr : r.result = .ok ev data msgr)
    (o : Outcome) (hx : extractData (dataClass guards (a.data.getD {})) data env = .error o) :
    dispatchReply guards tbl r env true = o ∧ (o = .missingData ∨ o = .badEnvelope) := by
  constructor
  · simp [dispatchReply, he, hr, hf, hd, hx]
  · unfold extractData at hx
    split at hx <;> (try cases hx) <;> (try (split at hx <;> (try cases hx))) <;> simp

end C09
