import Sylvia.Lemmas.Reply
/-!
# C07 — reply routing honours the declared handler and outcome

`Reply.dispatchReply` models the generated `dispatch_reply`; `Reply.replyTable` the table it is generated
from. The theorems hold for every table the fold can produce (any methods, any declaration order): routing
depends only on which outcome a method was *declared* for, never on its position in the entry.
-/
namespace C07
open Sylvia Sylvia.Reply

variable (guards : List (Bool × Bool × Bool × Nat × Nat × Bool))

/-- an id that belongs to no handler is an error -/
theorem unknown_id_errors (tbl : List Entry) (r : ReplyIn) (env : Envelope) (pok : Bool) (h : tbl[r.id]? = none) :
    dispatchReply guards tbl r env pok = .unknownId r.id := by
  simp [dispatchReply, h]

/-- sub-message succeeded, a method is declared for `success` (no data parameter): that method runs, with the
gas used, the events and the message responses in its context and the payload -/
theorem success_runs_declared (tbl : List Entry) (e : Entry) (r : ReplyIn) (env : Envelope)
    (he : tbl[r.id]? = some e) (hc : Compatible e.handlers) (fn : Name) (hm : (fn, .success) ∈ e.handlers)
    (hd : e.data = none) (ev msgr : Nat) (data : Option String) (hr : r.result = .ok ev data msgr) :
    dispatchReply guards tbl r env true = .call fn r.gasUsed ev msgr .none r.payload := by
  simp [dispatchReply, he, hr, find_success hc hm, hd]

/-- … with a data parameter the extracted data is handed over, or the extraction error is returned and the
handler is not called -/
theorem success_with_data (tbl : List Entry) (e : Entry) (r : ReplyIn) (env : Envelope)
    (he : tbl[r.id]? = some e) (hc : Compatible e.handlers) (fn : Name) (hm : (fn, .success) ∈ e.handlers)
    (a : Arg) (hd : e.data = some a) (ev msgr : Nat) (data : Option String) (hr : r.result = .ok ev data msgr) :
    dispatchReply guards tbl r env true =
      match extractData (dataClass guards (a.data.getD {})) data env with
      | .ok first => .call fn r.gasUsed ev msgr first r.payload
      | .error o => o := by
  simp only [dispatchReply, he, hr, find_success hc hm, hd]
  cases extractData (dataClass guards (a.data.getD {})) data env <;> rfl

/-- sub-message succeeded, only an `always` method: it gets the full result, no events in the context -/
theorem success_runs_always (tbl : List Entry) (e : Entry) (r : ReplyIn) (env : Envelope)
    (he : tbl[r.id]? = some e) (hc : Compatible e.handlers) (fn : Name) (hm : (fn, .always) ∈ e.handlers)
    (ev msgr : Nat) (data : Option String) (hr : r.result = .ok ev data msgr) :
    dispatchReply guards tbl r env true = .call fn r.gasUsed 0 0 (.fullResult r.result) r.payload := by
  have := always_alone hc hm
  simp [dispatchReply, he, hr, this, List.find?]

/-- sub-message failed, a method is declared for `error`: it runs with the error text -/
theorem error_runs_declared (tbl : List Entry) (e : Entry) (r : ReplyIn) (env : Envelope)
    (he : tbl[r.id]? = some e) (hc : Compatible e.handlers) (fn : Name) (hm : (fn, .error) ∈ e.handlers)
    (text : String) (hr : r.result = .err text) :
    dispatchReply guards tbl r env true = .call fn r.gasUsed 0 0 (.errorText text) r.payload := by
  simp [dispatchReply, he, hr, find_error hc hm]

theorem error_runs_always (tbl : List Entry) (e : Entry) (r : ReplyIn) (env : Envelope)
    (he : tbl[r.id]? = some e) (hc : Compatible e.handlers) (fn : Name) (hm : (fn, .always) ∈ e.handlers)
    (text : String) (hr : r.result = .err text) :
    dispatchReply guards tbl r env true = .call fn r.gasUsed 0 0 (.fullResult r.result) r.payload := by
  have := always_alone hc hm
  simp [dispatchReply, he, hr, this, List.find?]

/-- no method covers success: as if no reply had been requested — events and data passed through -/
theorem success_uncovered_passes_through (tbl : List Entry) (e : Entry) (r : ReplyIn) (env : Envelope) (pok : Bool)
    (he : tbl[r.id]? = some e) (h1 : ∀ fn, (fn, ReplyOn.success) ∉ e.handlers) (h2 : ∀ fn, (fn, ReplyOn.always) ∉ e.handlers)
    (ev msgr : Nat) (data : Option String) (hr : r.result = .ok ev data msgr) :
    dispatchReply guards tbl r env pok = .passOk ev data := by
  simp [dispatchReply, he, hr, find_none_of_absent .success h1 h2]

/-- no method covers failure: the error is returned -/
theorem error_uncovered_passes_through (tbl : List Entry) (e : Entry) (r : ReplyIn) (env : Envelope) (pok : Bool)
    (he : tbl[r.id]? = some e) (h1 : ∀ fn, (fn, ReplyOn.error) ∉ e.handlers) (h2 : ∀ fn, (fn, ReplyOn.always) ∉ e.handlers)
    (text : String) (hr : r.result = .err text) :
    dispatchReply guards tbl r env pok = .passErr text := by
  simp [dispatchReply, he, hr, find_none_of_absent .error h1 h2]

/-- the hypotheses `Compatible` above hold for every entry of every table the macro builds -/
theorem table_entries_compatible (b : Bool) (tyEq : Ty → Ty → Bool) (ms : List Method) :
    ∀ e ∈ (replyTable b tyEq ms).1, Compatible e.handlers :=
  (replyTable_ok b tyEq ms).1

/-- non-vacuity: a two-method table (error declared before success) routes a success to the success method -/
example : ∃ (tbl : List Entry) (e : Entry), tbl[0]? = some e ∧ Compatible e.handlers ∧
    (([] : Name), ReplyOn.success) ∈ e.handlers ∧ e.handlers.length = 2 := by
  refine ⟨[{ id := "H_REPLY_ID", handler := [], handlers := [([Casing.Ch.us], .error), ([], .success)], data := none, payload := [] }], _, rfl, ?_, ?_, rfl⟩
  · simp [Compatible, excludes]
  · simp

end C07
