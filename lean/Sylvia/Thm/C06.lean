import Sylvia.Model.EntryPoints
import Sylvia.Lemmas.Tables
/-!
# C06 — entry points exist exactly for defined, non-overridden kinds and forward calls

`Gen.entryPoints` models `EntryPoints::emit`; its kind parser and default list are the regenerated
tables. The theorems are stated under two named hypotheses about those tables, discharged separately in
`Thm/Obl/Override.lean` and `Thm/Obl/Tables.lean` (so that a table that drifts from the documented
vocabulary is reported as exactly that obligation):
* `OverrideFaithful` — the override attribute reads kind words like `#[sv::msg(..)]` does;
* `DefaultsDocumented` — the four unconditional entry points.
-/
namespace C06
open Sylvia Gen Extracted

def OverrideFaithful : Prop := ∀ s, lookup overrideParse s = lookup msgTypeNew s
def DefaultsDocumented : Prop := epDefaults = [.instantiate, .exec, .query, .sudo]

/-- kinds the user marked as overridden, read with the documented kind vocabulary -/
def namedKinds (c : Contract) : List Kind := c.overrides.filterMap (lookup msgTypeNew)

/-- instantiate, execute, query, sudo always; migrate / reply precisely when such a handler is declared -/
def defined (c : Contract) : Kind → Bool
  | .migrate => hasHandler c .migrate
  | .reply => hasHandler c .reply
  | _ => true

theorem overridden_eq_named (hf : OverrideFaithful) (c : Contract) : overriddenKinds c = namedKinds c := by
  unfold overriddenKinds namedKinds
  congr 1
  funext s
  exact hf s

/-- **C06, existence.** For every contract (any override list, in any order, with repetitions, any
handlers): an entry point of kind `k` is emitted iff `k` is defined and was not overridden. -/
theorem ep_iff (hf : OverrideFaithful) (hd : DefaultsDocumented) (c : Contract) (k : Kind) :
    k ∈ entryPoints c ↔ (defined c k = true ∧ k ∉ namedKinds c) := by
  unfold entryPoints
  rw [overridden_eq_named hf, hd]
  cases k <;>
    simp [defined, List.mem_filter, List.contains_iff_mem] <;>
    (try (cases hasHandler c .migrate <;> simp)) <;>
    (try (cases hasHandler c .reply <;> simp))

/-- Overriding one kind never removes or adds an entry point of another kind. -/
theorem override_local (hf : OverrideFaithful) (hd : DefaultsDocumented) (c : Contract) (w : Str) (k : Kind)
    (hk : lookup msgTypeNew w ≠ some k) :
    k ∈ entryPoints { c with overrides := w :: c.overrides } ↔ k ∈ entryPoints c := by
  rw [ep_iff hf hd, ep_iff hf hd]
  have hdef : defined { c with overrides := w :: c.overrides } k = defined c k := by
    cases k <;> simp [defined, hasHandler]
  have hnamed : k ∈ namedKinds { c with overrides := w :: c.overrides } ↔ k ∈ namedKinds c := by
    unfold namedKinds
    simp only [List.filterMap_cons]
    cases hw : lookup msgTypeNew w with
    | none => simp
    | some k' =>
      simp only [List.mem_cons]
      constructor
      · rintro (rfl | h)
        · exact absurd hw hk
        · exact h
      · exact Or.inr
  rw [hdef, hnamed]

/-- … and it does remove the entry point of the kind it names. -/
theorem override_removes (hf : OverrideFaithful) (hd : DefaultsDocumented) (c : Contract) (w : Str) (k : Kind)
    (hk : lookup msgTypeNew w = some k) :
    k ∉ entryPoints { c with overrides := w :: c.overrides } := by
  rw [ep_iff hf hd]
  intro ⟨_, hn⟩
  apply hn
  simp [namedKinds, hk]

/-- no entry point is emitted twice -/
theorem ep_nodup (hd : DefaultsDocumented) (c : Contract) : (entryPoints c).Nodup := by
  unfold entryPoints
  rw [hd]
  generalize overriddenKinds c = ov
  simp only [List.filter]
  generalize ov.contains Kind.instantiate = b1
  generalize ov.contains Kind.exec = b2
  generalize ov.contains Kind.query = b3
  generalize ov.contains Kind.sudo = b4
  generalize ov.contains Kind.migrate = b5
  generalize ov.contains Kind.reply = b6
  generalize hasHandler c .migrate = m
  generalize hasHandler c .reply = r
  cases b1 <;> cases b2 <;> cases b3 <;> cases b4 <;> cases b5 <;> cases b6 <;> cases m <;> cases r <;> decide

/-- Non-vacuity: a contract with a migrate handler, overriding `sudo`, gets five entry points. -/
def exampleContract : Contract :=
  { name := "C", overrides := [[115, 117, 100, 111]],
    methods := [({ name := [], msg := some ({ kind := Kind.migrate } : MsgAttr) } : Method)] }

example : entryPoints exampleContract = [.instantiate, .exec, .query, .migrate] := by decide

end C06
