import Sylvia.Extracted.ReplyParamFns
/-!
# Where a reply handler's `#[sv::data]` / `#[sv::payload(raw)]` parameters may stand, on the regenerated code of `reply.rs` (C18, C09)

`Extracted.ReplyParamFns.MsgVariant.as_data_field` and `assert_no_redundant_params` are rewritten from the current source on every
run; `emit_error!` is a diagnostic (message and literal notes) appended to the list returned next to the value; the accessors of
`MsgVariant` / `MsgField` / `MsgAttr` and the attribute parser are parameters. The theorems are the documented rules: the data
parameter is recognised exactly when the method is declared for `success` and the marked parameter is the first one after the
context, it is diagnosed — and not recognised — when it stands elsewhere or the method is declared for another outcome; a raw
payload parameter must be the only payload parameter.
-/
namespace ReplyParamFn
open RustSem Extracted.ReplyOnFns Extracted.ReplyParamFns
open RustExtern (ParsedAttrs)

variable {MV MF MA Attr P D Id : Type}
  (variantFields : MV → List MF) (variantMsgAttr : MV → MA) (attrReplyOn : MA → ReplyOn)
  (fieldAttrs : MF → List Attr) (parsedAttrs : List Attr → ParsedAttrs P D)
  (attrHandlers : MA → List Id) (variantFnName : MV → Id)

def wrongPlace : String :=
  "Wrong usage of `#[sv::data]` attribute. | The `#[sv::data]` attribute can only be used on the first parameter after the `ReplyCtx`."
def wrongScenario : String :=
  "Wrong usage of `#[sv::data]` attribute. | The `#[sv::data]` attribute can only be used in `success` scenario."
def redundantAfter : String :=
  "Redundant payload parameter. | Expected no parameters after the parameter marked with `#[sv::payload(raw)]`."
def redundantBetween : String :=
  "Redundant payload parameter. | Expected no parameters between the parameter marked with `#[sv::data]` and `#[sv::payload(raw)]`."

/-- the first parameter carrying `#[sv::data]`, with its position -/
def dataParam (v : MV) : Option (Nat × MF) :=
  enumFind (fun f => ((parsedAttrs (fieldAttrs f)).data).isSome) (variantFields v)

/-- **C18 / C09: the data parameter.** -/
theorem as_data_field_spec (v : MV) :
    MsgVariant.as_data_field variantFields variantMsgAttr attrReplyOn fieldAttrs parsedAttrs attrHandlers variantFnName v = .ok
      (match dataParam variantFields fieldAttrs parsedAttrs v with
       | none => (none, [])
       | some (i, f) =>
         if attrReplyOn (variantMsgAttr v) = .Success then (if i = 0 then (some f, []) else (none, [wrongPlace]))
         else (none, [wrongScenario])) := by
  unfold MsgVariant.as_data_field dataParam
  cases h : enumFind (fun f => ((parsedAttrs (fieldAttrs f)).data).isSome) (variantFields v) with
  | none => rfl
  | some p =>
    obtain ⟨i, f⟩ := p
    cases hs : attrReplyOn (variantMsgAttr v) <;> cases i <;> simp [wrongPlace, wrongScenario]

/-- **C18: a raw payload parameter is the only payload parameter.** No diagnostic for a single parameter or when none is marked; one
diagnostic — never a panic — otherwise, telling whether parameters follow it or stand between it and the data parameter. -/
theorem assert_no_redundant_params_spec (payload : List MF) :
    assert_no_redundant_params variantFields variantMsgAttr attrReplyOn fieldAttrs parsedAttrs attrHandlers variantFnName payload = .ok ((),
      if payload.length = 1 then []
      else match enumFind (fun f => ((parsedAttrs (fieldAttrs f)).payload).isSome) payload with
        | none => []
        | some (0, _) => [redundantAfter]
        | some (_ + 1, _) => [redundantBetween]) := by
  unfold assert_no_redundant_params
  by_cases hl : payload.length = 1
  · simp [hl]
  · simp only [hl, beq_iff_eq, if_false]
    cases h : enumFind (fun f => ((parsedAttrs (fieldAttrs f)).payload).isSome) payload with
    | none => rfl
    | some p =>
      obtain ⟨i, f⟩ := p
      cases i <;> simp [redundantAfter, redundantBetween]

/-- **which handler names a reply method serves** (`as_variant_handlers_pair`): the names listed in `handlers=[..]`, in order, or —
when none is listed — the method's own name -/
theorem as_variant_handlers_pair_spec (v : MV) :
    MsgVariant.as_variant_handlers_pair variantFields variantMsgAttr attrReplyOn fieldAttrs parsedAttrs attrHandlers variantFnName v = .ok
      (if (attrHandlers (variantMsgAttr v)).isEmpty then [(v, variantFnName v)] else (attrHandlers (variantMsgAttr v)).map fun h => (v, h), []) := by
  unfold MsgVariant.as_variant_handlers_pair
  rw [mapRes_ok (g := fun h => (v, h)) (h := fun _ => rfl)]
  simp only [bind_ok, List.isEmpty_map]
  split <;> rfl

/-- `enumFind` returns the first marked element: nothing before it is marked -/
theorem enumFindFrom_first {α : Type} (p : α → Bool) : ∀ (l : List α) (k i : Nat) (a : α),
    enumFindFrom p k l = some (i, a) → p a = true ∧ k ≤ i ∧ ∀ j, j < i - k → ∀ b, l[j]? = some b → p b = false
  | [], _, _, _, h => by simp [enumFindFrom] at h
  | x :: r, k, i, a, h => by
    unfold enumFindFrom at h
    by_cases hx : p x = true
    · simp only [hx, if_true, Option.some.injEq, Prod.mk.injEq] at h
      obtain ⟨rfl, rfl⟩ := h
      exact ⟨hx, Nat.le_refl _, by intro j hj; omega⟩
    · simp only [hx, if_false] at h
      obtain ⟨ha, hk, hb⟩ := enumFindFrom_first p r (k + 1) i a (by simpa using h)
      refine ⟨ha, by omega, ?_⟩
      intro j hj b hb'
      cases j with
      | zero => simp at hb'; subst hb'; simpa using hx
      | succ j => exact hb j (by omega) b (by simpa using hb')

/-- non-vacuity: parameters are numbers, the second is marked; on a `success` method that is the wrong place -/
example : MsgVariant.as_data_field (MsgVariant := Unit) (MsgAttr := Unit) (Ident := Nat) (fun _ => [10, 21, 30]) (fun _ => ()) (fun _ => ReplyOn.Success)
    (fun f => [f]) (fun as => (⟨none, if as == [21] then some () else none⟩ : ParsedAttrs Unit Unit)) (fun _ => []) (fun _ => 0) ()
    = .ok (none, [wrongPlace]) := by
  rw [as_data_field_spec]; rfl

end ReplyParamFn
