import Sylvia.Extracted.ReplyDataFns
import Sylvia.Thm.ReplyOnFn
/-!
# `ReplyData::emit_cw_reply_on`, on the regenerated code

`Extracted.ReplyDataFns.ReplyData.emit_cw_reply_on` is written by the function translator from
`sylvia-derive/src/contract/communication/reply.rs` on every run (`quote!{..}` results are kept as their token text). It is the
function the trigger theorem of C08 (`C08.trigger_spec`) and the order-independence theorem of C14 (`C14.trigger_perm`) call
`Reply.cwReplyOn`: for **every** list of (method, outcome) pairs merged under a handler name — any length, any order — the tokens
it emits name the trigger the model computes.
-/
namespace ReplyDataFn
open RustSem Extracted.ReplyDataFns Sylvia

/-- the token text the builder template splices in for a trigger -/
def tokens : Sylvia.ReplyOn → String
  | .always => "#sylvia::cw_std::ReplyOn::Always"
  | .success => "#sylvia::cw_std::ReplyOn::Success"
  | .error => "#sylvia::cw_std::ReplyOn::Error"

/-- the model's table entry of a `ReplyData` value (names and parameters are irrelevant to the trigger) -/
def absEntry {Ident MsgField : Type} (name : Ident → Name) (d : ReplyData Ident MsgField) : Reply.Entry :=
  { id := "", handler := name d.handler_id, handlers := d.handlers.map fun h => (name h.1, ReplyOnFn.conv h.2), data := none, payload := [] }

theorem any_conv {Ident : Type} (name : Ident → Name) (hs : List (Ident × Extracted.ReplyOnFns.ReplyOn)) (o : Extracted.ReplyOnFns.ReplyOn) :
    (hs.map fun h => (name h.1, ReplyOnFn.conv h.2)).any (·.2 == ReplyOnFn.conv o) = hs.any (fun (_, r) => r == o) := by
  induction hs with
  | nil => rfl
  | cons h t ih =>
    obtain ⟨i, r⟩ := h
    simp only [List.map, List.any, ih]
    congr 1
    cases r <;> cases o <;> rfl

/-- **the regenerated function is the model's `cwReplyOn`**, for every handler list -/
theorem emit_cw_reply_on_eq {Ident MsgField : Type} (name : Ident → Name) (d : ReplyData Ident MsgField) :
    ReplyData.emit_cw_reply_on d = .ok (tokens (Reply.cwReplyOn (absEntry name d))) := by
  have hA : (d.handlers.map fun h => (name h.1, ReplyOnFn.conv h.2)).any (·.2 == Sylvia.ReplyOn.always)
      = d.handlers.any (fun (_, r) => r == .Always) := any_conv name d.handlers .Always
  have hS : (d.handlers.map fun h => (name h.1, ReplyOnFn.conv h.2)).any (·.2 == Sylvia.ReplyOn.success)
      = d.handlers.any (fun (_, r) => r == .Success) := any_conv name d.handlers .Success
  have hE : (d.handlers.map fun h => (name h.1, ReplyOnFn.conv h.2)).any (·.2 == Sylvia.ReplyOn.error)
      = d.handlers.any (fun (_, r) => r == .Error) := any_conv name d.handlers .Error
  unfold ReplyData.emit_cw_reply_on Reply.cwReplyOn
  simp only [absEntry, hA, hS, hE]
  cases (d.handlers.any fun (_, r) => r == Extracted.ReplyOnFns.ReplyOn.Always) <;>
    cases (d.handlers.any fun (_, r) => r == Extracted.ReplyOnFns.ReplyOn.Success) <;>
    cases (d.handlers.any fun (_, r) => r == Extracted.ReplyOnFns.ReplyOn.Error) <;> rfl

/-- the three token texts are distinct, so the emitted tokens determine the trigger -/
theorem tokens_injective (a b : Sylvia.ReplyOn) (h : tokens a = tokens b) : a = b := by
  cases a <;> cases b <;> first | rfl | (simp [tokens] at h)

/-- non-vacuity: an error method declared before a success method requests a reply for both outcomes -/
example : ReplyData.emit_cw_reply_on ({ reply_id := 0, handler_id := 0, handlers := [(1, .Error), (2, .Success)], data := none, payload := [] } : ReplyData Nat Nat)
    = .ok "#sylvia::cw_std::ReplyOn::Always" := rfl

end ReplyDataFn
