import Sylvia.Extracted.StripFns
import Sylvia.Model.Strip
import Sylvia.Thm.Obl.T.msg_is_framework
/-!
# `StripInput`, on the regenerated code of `sylvia-derive/src/fold.rs` (C13)

`Extracted.StripFns.*` is written by the function translator from the current source on every run: `remove_input_attr` and the
four overridden folds of `impl Fold for StripInput`. syn's tree is the view of `RustExtern.Syn` (attribute lists plus an opaque
rest at every level); `SylviaAttribute::new` — which attributes are the framework's own — is a parameter here and is instantiated
below with the regenerated attribute table. The theorems say what the pass-through theorems of `Thm/C13.lean` say about the model
`Strip.strip`, but about the code: for **every** item, every number of methods and parameters and every attribute placement, the
fold returns normally; it removes exactly the framework's attributes from the item and from every method, empties the attribute
lists of the parameters (receiver included) of exactly the methods that carry `#[sv::msg]`, and leaves every `rest` — visibility,
names, generics, types, bodies — as it was. `refines_model` then identifies the regenerated fold with `Strip.strip`.
-/
namespace StripFn
open RustSem RustExtern RustExtern.Syn Extracted.StripFns

variable {Attr R SA : Type} [DecidableEq SA]

/-- a parameter with its attributes removed -/
def clearArg : FnArg Attr R → FnArg Attr R
  | .Receiver r => .Receiver { r with attrs := [] }
  | .Typed t => .Typed { t with attrs := [] }

theorem remove_input_attr_eq (svMsg : SA) (svNew : Attr → Option SA) (inputs : List (FnArg Attr R)) :
    remove_input_attr svMsg svNew inputs = .ok (inputs.map clearArg) := by
  unfold remove_input_attr
  rw [mapRes_ok (g := clearArg)]
  · rfl
  · intro a
    cases a with
    | Receiver r =>
      cases hr : r.attrs with
      | nil => cases r; simp_all [clearArg]
      | cons x xs => simp [hr, clearArg]
    | Typed t =>
      cases ht : t.attrs with
      | nil => cases t; simp_all [clearArg]
      | cons x xs => simp [ht, clearArg]

/-- what the fold makes of one method: the code's own reading of "is a handler" and "is a framework attribute" -/
def stripImplFn (svMsg : SA) (svNew : Attr → Option SA) (i : ImplItemFn Attr R) : ImplItemFn Attr R :=
  { i with attrs := i.attrs.filter (fun a => (svNew a).isNone),
           sig := { i.sig with inputs := if i.attrs.any (fun a => svNew a == some svMsg) then i.sig.inputs.map clearArg else i.sig.inputs } }

def stripTraitFn (svMsg : SA) (svNew : Attr → Option SA) (i : TraitItemFn Attr R) : TraitItemFn Attr R :=
  { i with attrs := i.attrs.filter (fun a => (svNew a).isNone),
           sig := { i.sig with inputs := if i.attrs.any (fun a => svNew a == some svMsg) then i.sig.inputs.map clearArg else i.sig.inputs } }

theorem fold_impl_item_fn_eq (svMsg : SA) (svNew : Attr → Option SA) (s : StripInput) (i : ImplItemFn Attr R) :
    StripInput.fold_impl_item_fn svMsg svNew s i = .ok (stripImplFn svMsg svNew i) := by
  unfold StripInput.fold_impl_item_fn stripImplFn
  simp only [remove_input_attr_eq, bind_ok, Syn.fold_impl_item_fn]
  split <;> rfl

theorem fold_trait_item_fn_eq (svMsg : SA) (svNew : Attr → Option SA) (s : StripInput) (i : TraitItemFn Attr R) :
    StripInput.fold_trait_item_fn svMsg svNew s i = .ok (stripTraitFn svMsg svNew i) := by
  unfold StripInput.fold_trait_item_fn stripTraitFn
  simp only [remove_input_attr_eq, bind_ok, Syn.fold_trait_item_fn]
  split <;> rfl

/-- **the contract macro's fold**, for every impl block -/
theorem fold_item_impl_eq (svMsg : SA) (svNew : Attr → Option SA) (s : StripInput) (i : ItemImpl Attr R) :
    StripInput.fold_item_impl svMsg svNew s i
      = .ok { i with attrs := i.attrs.filter (fun a => (svNew a).isNone), items := i.items.map (stripImplFn svMsg svNew) } := by
  unfold StripInput.fold_item_impl Syn.fold_item_impl
  simp only [mapRes_ok _ _ (fold_impl_item_fn_eq svMsg svNew s), bind_ok]

/-- **the interface macro's fold**, for every trait -/
theorem fold_item_trait_eq (svMsg : SA) (svNew : Attr → Option SA) (s : StripInput) (i : ItemTrait Attr R) :
    StripInput.fold_item_trait svMsg svNew s i
      = .ok { i with attrs := i.attrs.filter (fun a => (svNew a).isNone), items := i.items.map (stripTraitFn svMsg svNew) } := by
  unfold StripInput.fold_item_trait Syn.fold_item_trait
  simp only [mapRes_ok _ _ (fold_trait_item_fn_eq svMsg svNew s), bind_ok]

/-- everything but attributes is passed through: rest of the item, of every method, of every signature and parameter -/
theorem rests_intact (svMsg : SA) (svNew : Attr → Option SA) (i : ImplItemFn Attr R) :
    (stripImplFn svMsg svNew i).rest = i.rest ∧ (stripImplFn svMsg svNew i).sig.rest = i.sig.rest ∧
    (stripImplFn svMsg svNew i).sig.inputs.length = i.sig.inputs.length := by
  refine ⟨rfl, rfl, ?_⟩
  simp only [stripImplFn]
  split <;> simp

-- ------------------------------------------------------------------------------------------------
-- refinement to the model `Strip.strip` (the object of the theorems of Thm/C13.lean)
-- ------------------------------------------------------------------------------------------------
open Sylvia.Strip in
/-- `SylviaAttribute::new` read off the regenerated attribute table; `true` stands for `SylviaAttribute::Msg` -/
def svNewTable (a : Sylvia.Strip.AttrS) : Option Bool :=
  if Sylvia.Strip.isFramework a then some (Sylvia.Strip.isMsgAttr a) else none

def absArg : FnArg Sylvia.Strip.AttrS String → Sylvia.Strip.ParamS
  | .Receiver r => { attrs := r.attrs, text := r.rest }
  | .Typed t => { attrs := t.attrs, text := t.rest }

def absFn (i : ImplItemFn Sylvia.Strip.AttrS String) : Sylvia.Strip.MethodS :=
  { attrs := i.attrs, params := i.sig.inputs.map absArg, rest := i.rest ++ i.sig.rest }

def absImpl (i : ItemImpl Sylvia.Strip.AttrS String) : Sylvia.Strip.ItemS :=
  { attrs := i.attrs, methods := i.items.map absFn, rest := i.rest }

theorem absArg_clear (a : FnArg Sylvia.Strip.AttrS String) : absArg (clearArg a) = { absArg a with attrs := [] } := by
  cases a <;> rfl

theorem isNone_svNewTable (a : Sylvia.Strip.AttrS) : (svNewTable a).isNone = !Sylvia.Strip.isFramework a := by
  unfold svNewTable; split <;> simp_all

theorem handler_svNewTable (h : ∀ a, Sylvia.Strip.isMsgAttr a = true → Sylvia.Strip.isFramework a = true) (a : Sylvia.Strip.AttrS) :
    (svNewTable a == some true) = Sylvia.Strip.isMsgAttr a := by
  unfold svNewTable
  have := h a
  cases hm : Sylvia.Strip.isMsgAttr a <;> cases hf : Sylvia.Strip.isFramework a <;> simp_all

theorem absFn_strip (h : ∀ a, Sylvia.Strip.isMsgAttr a = true → Sylvia.Strip.isFramework a = true) (i : ImplItemFn Sylvia.Strip.AttrS String) :
    absFn (stripImplFn true svNewTable i) = Sylvia.Strip.stripMethod (absFn i) := by
  have hh : (i.attrs.any fun a => svNewTable a == some true) = i.attrs.any Sylvia.Strip.isMsgAttr := by
    congr 1; funext a; exact handler_svNewTable h a
  have hf : (i.attrs.filter fun a => (svNewTable a).isNone) = i.attrs.filter (fun a => !Sylvia.Strip.isFramework a) := by
    congr 1; funext a; exact isNone_svNewTable a
  simp only [absFn, stripImplFn, Sylvia.Strip.stripMethod, Sylvia.Strip.isHandler, hh, hf]
  by_cases hx : i.attrs.any Sylvia.Strip.isMsgAttr = true
  · simp [hx, List.map_map, Function.comp_def, absArg_clear]
  · simp [hx]

/-- **refinement.** The regenerated fold of the contract macro is the model's `strip`, on every impl block. -/
theorem refines_model (h : ∀ a, Sylvia.Strip.isMsgAttr a = true → Sylvia.Strip.isFramework a = true)
    (s : StripInput) (i : ItemImpl Sylvia.Strip.AttrS String) :
    ∃ out, StripInput.fold_item_impl true svNewTable s i = .ok out ∧ absImpl out = Sylvia.Strip.strip (absImpl i) := by
  refine ⟨_, fold_item_impl_eq true svNewTable s i, ?_⟩
  have hf : (i.attrs.filter fun a => (svNewTable a).isNone) = i.attrs.filter (fun a => !Sylvia.Strip.isFramework a) := by
    congr 1; funext a; exact isNone_svNewTable a
  simp only [absImpl, Sylvia.Strip.strip, hf, List.map_map, Function.comp_def, absFn_strip h]

/-- non-vacuity: a handler with an attribute on its receiver and one on an argument, next to a helper method -/
example : StripInput.fold_item_impl (R := String) (Attr := Nat) (1 : Nat) (fun a => if a < 10 then some a else none) ⟨⟩
    { attrs := [3, 20], rest := "impl Ct",
      items := [{ attrs := [1, 30], rest := "fn exec", sig := { rest := "-> R", inputs := [.Receiver ⟨[40], "&self"⟩, .Typed ⟨[2, 50], "a: u32"⟩] } },
                { attrs := [30], rest := "fn helper", sig := { rest := "", inputs := [.Typed ⟨[50], "x: u8"⟩] } }] }
    = .ok { attrs := [20], rest := "impl Ct",
            items := [{ attrs := [30], rest := "fn exec", sig := { rest := "-> R", inputs := [.Receiver ⟨[], "&self"⟩, .Typed ⟨[], "a: u32"⟩] } },
                      { attrs := [30], rest := "fn helper", sig := { rest := "", inputs := [.Typed ⟨[50], "x: u8"⟩] } }] } := by
  rw [fold_item_impl_eq]; rfl

end StripFn
