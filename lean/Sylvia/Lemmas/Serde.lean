import Sylvia.Model.Serde
/-! Lemmas about the decoder model: canonical forms are fixed points, the value pass is the identity
on canonical values, association-list lookups through the sorted map. -/
namespace Sylvia.Serde

-- ------------------------------------------------------------------------------------------------
-- canonical values are fixed points of `decodeVal` (in either mode)
-- ------------------------------------------------------------------------------------------------

theorem decodeVal_idem (b b' : Bool) : ∀ (t : VTy) (j c : Json), decodeVal b t j = some c → decodeVal b' t c = some c := by
  intro t j
  refine decodeVal.induct b
    (motive1 := fun t j => ∀ c, decodeVal b t j = some c → decodeVal b' t c = some c)
    (motive2 := fun t xs => ∀ cs, decodeVals b t xs = some cs → decodeVals b' t cs = some cs)
    ?_ ?_ ?_ ?_ ?_ ?_ ?_ ?_ ?_ ?_ ?_ ?_ ?_ ?_ ?_ ?_ ?_ ?_ ?_ ?_ t j
  · intro bits s c h
    simp only [decodeVal] at h ⊢
    cases hn : canonNat s with
    | none => simp [hn] at h
    | some n =>
      simp only [hn, Option.bind_some] at h
      split at h
      · cases h; simp [decodeVal, hn, *]
      · cases h
  · intro bits s c h
    simp only [decodeVal] at h ⊢
    cases hn : canonInt s with
    | none => simp [hn] at h
    | some n =>
      simp only [hn, Option.bind_some] at h
      split at h
      · cases h; simp [decodeVal, hn, *]
      · cases h
  · intro x c h; simp only [decodeVal] at h; cases h; simp [decodeVal]
  · intro s c h; simp only [decodeVal] at h; cases h; simp [decodeVal]
  · intro s c h; simp only [decodeVal] at h; cases h; simp [decodeVal]
  · intro s c h
    simp only [decodeVal] at h ⊢
    cases hn : canonNat s with
    | none => simp [hn] at h
    | some n =>
      simp only [hn, Option.bind_some] at h
      split at h
      · cases h; simp [decodeVal, hn, *]
      · cases h
  · intro s hb c h; simp only [decodeVal, hb, if_true] at h; cases h; simp [decodeVal, hb]
  · intro s hb c h; simp [decodeVal, hb] at h
  · intro ms c h; simp only [decodeVal] at h; cases h; simp [decodeVal]
  · intro xs hv c h; simp only [decodeVal, hv, if_true] at h; cases h; simp [decodeVal]
  · intro xs hv c h; simp [decodeVal, hv] at h
  · intro t c h; simp only [decodeVal] at h; cases h; simp [decodeVal]
  · intro t j hj ih c h
    have e : decodeVal b t.option j = decodeVal b t j := by
      cases j <;> first | exact absurd rfl hj | simp [decodeVal]
    rw [e] at h
    have := ih c h
    by_cases hc : c = .null
    · subst hc; simp [decodeVal]
    · have e' : decodeVal b' t.option c = decodeVal b' t c := by
        cases c <;> first | exact absurd rfl hc | simp [decodeVal]
      rw [e']; exact this
  · intro t xs ih c h
    simp only [decodeVal] at h
    cases hx : decodeVals b t xs with
    | none => simp [hx] at h
    | some cs =>
      simp only [hx, Option.map_some] at h
      cases h
      simp [decodeVal, ih cs hx]
  · intro a b2 x y iha ihb c h
    simp only [decodeVal] at h
    cases hx : decodeVal b a x with
    | none => simp [hx] at h
    | some x' =>
      cases hy : decodeVal b b2 y with
      | none => simp [hx, hy] at h
      | some y' =>
        simp [hx, hy] at h
        cases h
        simp [decodeVal, iha x' hx, ihb y' hy]
  · intro a b2 x y hd tl hv iha ihb c h
    subst hv
    simp only [decodeVal, if_true] at h
    cases hx : decodeVal true a x with
    | none => simp [hx] at h
    | some x' =>
      cases hy : decodeVal true b2 y with
      | none => simp [hx, hy] at h
      | some y' =>
        simp [hx, hy] at h
        cases h
        simp [decodeVal, iha x' hx, ihb y' hy]
  · intro a b2 x y hd tl hv c h; simp [decodeVal, hv] at h
  · intro t j h1 h2 h3 h4 h5 h6 h7 h8 h9 h10 h11 h12 h13 h14 c h
    exfalso
    cases t <;> cases j <;>
      first
      | exact h1 _ _ rfl rfl | exact h1 _ rfl rfl | exact h1 _ rfl | exact h2 _ _ rfl rfl | exact h2 _ rfl rfl | exact h2 _ rfl | exact h3 _ _ rfl rfl | exact h3 _ rfl rfl | exact h3 _ rfl | exact h4 _ _ rfl rfl | exact h4 _ rfl rfl | exact h4 _ rfl | exact h5 _ _ rfl rfl | exact h5 _ rfl rfl | exact h5 _ rfl | exact h6 _ _ rfl rfl | exact h6 _ rfl rfl | exact h6 _ rfl | exact h7 _ _ rfl rfl | exact h7 _ rfl rfl | exact h7 _ rfl | exact h8 _ _ rfl rfl | exact h8 _ rfl rfl | exact h8 _ rfl | exact h9 _ _ rfl rfl | exact h9 _ rfl rfl | exact h9 _ rfl | exact h10 _ _ rfl rfl | exact h10 _ rfl rfl | exact h10 _ rfl | exact h11 _ _ rfl rfl | exact h11 _ rfl rfl | exact h11 _ rfl | exact h12 _ _ rfl rfl | exact h12 _ rfl rfl | exact h12 _ rfl | exact h13 _ _ rfl rfl | exact h13 _ rfl rfl | exact h13 _ rfl | exact h14 _ _ rfl rfl | exact h14 _ rfl rfl | exact h14 _ rfl
      | (simp [decodeVal] at h; done)
      | skip
  · intro t cs h; simp only [decodeVals] at h; cases h; simp [decodeVals]
  · intro t x xs ihx ihxs cs h
    simp only [decodeVals] at h
    cases hx : decodeVal b t x with
    | none => simp [hx] at h
    | some x' =>
      cases hxs : decodeVals b t xs with
      | none => simp [hx, hxs] at h
      | some xs' =>
        simp [hx, hxs] at h
        cases h
        simp [decodeVals, ihx x' hx, ihxs xs' hxs]

-- ------------------------------------------------------------------------------------------------
-- association lists and the sorted map of the value pass
-- ------------------------------------------------------------------------------------------------

theorem get?_insertSorted (k : String) (v : Json) (acc : List (String × Json)) (k' : String) :
    Json.get? (insertSorted k v acc) k' = if k == k' then some v else Json.get? acc k' := by
  induction acc with
  | nil => simp [insertSorted, Json.get?, List.find?]
  | cons x r ih =>
    obtain ⟨x1, x2⟩ := x
    simp only [insertSorted]
    by_cases h1 : (k == x1) = true
    · simp only [h1, if_true]
      have : x1 = k := by simpa using (beq_iff_eq.mp h1).symm
      subst this
      by_cases h2 : (x1 == k') = true
      · simp [Json.get?, List.find?, h2]
      · simp [Json.get?, List.find?, h2]
    · simp only [h1, Bool.false_eq_true, if_false]
      split
      · by_cases h2 : (k == k') = true
        · simp [Json.get?, List.find?, h2]
        · simp [Json.get?, List.find?, h2]
      · by_cases h3 : (x1 == k') = true
        · have hk : (k == k') = false := by
            have e1 : x1 = k' := beq_iff_eq.mp h3
            subst e1
            simpa using h1
          simp [Json.get?, List.find?, h3, hk]
        · simp only [Json.get?, List.find?, h3] at ih ⊢
          exact ih

theorem keys_insertSorted (k : String) (v : Json) (acc : List (String × Json)) (k' : String) :
    k' ∈ (insertSorted k v acc).map Prod.fst ↔ k' = k ∨ k' ∈ acc.map Prod.fst := by
  induction acc with
  | nil => simp [insertSorted]
  | cons x r ih =>
    obtain ⟨x1, x2⟩ := x
    simp only [insertSorted]
    split
    · rename_i h; have : k = x1 := beq_iff_eq.mp h; subst this; simp
    · split
      · simp
      · simp only [List.map_cons, List.mem_cons, ih]
        constructor
        · rintro (h | h | h) <;> simp [h]
        · rintro (h | h | h) <;> simp [h]

end Sylvia.Serde
