import Sylvia.Lemmas.Inter1
set_option linter.unusedSectionVars false
set_option linter.unusedVariables false
namespace Inter
variable {α : Type} [DecidableEq α] {lt : α → α → Bool}

def lk (cs : List (Cur α)) (i : Nat) : Option α := (cs[i]?).bind Cur.look

theorem collides_false {cs : List (Cur α)} {m : Nat} {h : α}
    (hm : hd cs m = some h) (hc : collides cs m = false) :
    ∀ l, l < cs.length → l ≠ m → lk cs l ≠ some h := by
  intro l hl hne heq
  unfold collides at hc
  unfold hd at hm
  rw [hm] at hc
  simp only [List.any_eq_false, List.mem_range] at hc
  have := hc l hl
  simp [hne, lk] at this heq
  exact this heq

theorem collides_true {cs : List (Cur α)} {m : Nat} (hc : collides cs m = true) :
    ∃ h l, hd cs m = some h ∧ l ≠ m ∧ lk cs l = some h := by
  unfold collides at hc
  cases hm : (cs[m]?).bind Cur.head with
  | none => simp [hm] at hc
  | some h =>
    simp only [hm, List.any_eq_true, List.mem_range] at hc
    obtain ⟨l, _, hl⟩ := hc
    simp at hl
    exact ⟨h, l, by simp [hd, hm], hl.1, by simp [lk, hl.2]⟩

theorem head_mem_full {c : Cur α} {h : α} (hh : c.head = some h) : h ∈ c.full := by
  unfold Cur.head at hh; unfold Cur.full
  cases hr : c.rest with
  | nil => simp [hr] at hh
  | cons a t => simp [hr] at hh; subst hh; simp

theorem look_mem_full {c : Cur α} {h : α} (hh : c.look = some h) : h ∈ c.full := by
  unfold Cur.look at hh; unfold Cur.full
  cases hr : c.rest with
  | nil =>
    simp [hr] at hh
    cases hd' : c.done with
    | nil => simp [hd'] at hh
    | cons a t => simp [hd'] at hh; subst hh; simp
  | cons a t => simp [hr] at hh; subst hh; simp

theorem advance_full (c : Cur α) : c.advance.full = c.full := by
  unfold Cur.advance Cur.full
  cases hr : c.rest <;> simp [hr]

theorem step_full (cs : List (Cur α)) (m : Nat) : (step cs m).map Cur.full = cs.map Cur.full := by
  unfold step
  apply List.ext_getElem?
  intro i
  simp only [List.getElem?_map, List.getElem?_modify]
  by_cases h : m = i
  · subst h; cases cs[m]? <;> simp [advance_full]
  · cases cs[i]? <;> simp [h]

/-- disjointness of the underlying arrays, phrased on cursors -/
def FullDisjoint (cs : List (Cur α)) : Prop :=
  ∀ (k l : Nat) (ck cl : Cur α), k ≠ l → cs[k]? = some ck → cs[l]? = some cl → ∀ x, x ∈ ck.full → x ∉ cl.full

theorem fullDisjoint_congr {cs cs' : List (Cur α)} (h : cs'.map Cur.full = cs.map Cur.full) :
    FullDisjoint cs' ↔ FullDisjoint cs := by
  have key : ∀ {a b : List (Cur α)}, a.map Cur.full = b.map Cur.full → FullDisjoint b → FullDisjoint a := by
    intro a b hab hb
    unfold FullDisjoint
    intro k l ck cl hkl hk hl x hx
    have e1 := congrArg (fun L => L[k]?) hab
    have e2 := congrArg (fun L => L[l]?) hab
    simp only [List.getElem?_map, hk, hl, Option.map_some] at e1 e2
    cases hbk : b[k]? with
    | none => simp [hbk] at e1
    | some bk =>
      cases hbl : b[l]? with
      | none => simp [hbl] at e2
      | some bl =>
        simp [hbk] at e1; simp [hbl] at e2
        rw [e1] at hx; rw [e2]
        exact hb k l bk bl hkl hbk hbl x hx
  exact ⟨key h.symm, key h⟩

/-- panic is sound: no sortedness needed -/
theorem loop_false_sound : ∀ (fuel : Nat) (cs : List (Cur α)), loop lt fuel cs = some false → ¬ FullDisjoint cs := by
  intro fuel
  induction fuel with
  | zero => intro cs h; unfold loop at h; split at h <;> simp at h
  | succ n ih =>
    intro cs h
    unfold loop at h
    split at h
    · simp at h
    · simp only at h
      split at h
      · rename_i hc
        obtain ⟨x, l, hm, hne, hl⟩ := collides_true hc
        intro hdis
        unfold FullDisjoint at hdis
        unfold hd at hm; unfold lk at hl
        cases hcm : cs[nextIndex lt cs]? with
        | none => simp [hcm] at hm
        | some cm =>
          cases hcl : cs[l]? with
          | none => simp [hcl] at hl
          | some cl =>
            simp [hcm] at hm; simp [hcl] at hl
            exact hdis _ _ cm cl (Ne.symm hne) hcm hcl x (head_mem_full hm) (look_mem_full hl)
      · intro hdis
        exact ih _ h ((fullDisjoint_congr (step_full cs _)).mpr hdis)

end Inter
