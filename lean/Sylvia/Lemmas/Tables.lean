import Sylvia.Model.Kinds
/-! Lifting finite table checks (decidable, over the regenerated data) to statements about every key. -/
namespace Sylvia

variable {α β : Type} [DecidableEq α] [DecidableEq β]

theorem lookup_of_mem_first {t : List (α × β)} {a : α} {b : β} (h : lookup t a = some b) : (a, b) ∈ t := by
  induction t with
  | nil => simp [lookup] at h
  | cons x xs ih =>
    obtain ⟨x1, x2⟩ := x
    simp only [lookup] at h
    split at h
    · rename_i hx; cases h; subst hx; simp
    · exact List.mem_cons_of_mem _ (ih h)

theorem lookup_none_of_not_key {t : List (α × β)} {a : α} (h : lookup t a = none) : ∀ b, (a, b) ∉ t := by
  induction t with
  | nil => intro b; simp
  | cons x xs ih =>
    obtain ⟨x1, x2⟩ := x
    simp only [lookup] at h
    split at h
    · cases h
    · rename_i hx
      intro b hb
      rcases List.mem_cons.mp hb with e | e
      · cases e; exact hx rfl
      · exact ih h b e

/-- every row of `a` is what `b` answers for its key -/
def rowsIn (a b : List (α × β)) : Bool := a.all fun r => lookup b r.1 == some r.2

theorem rowsIn_mem {a b : List (α × β)} (h : rowsIn a b = true) {x : α} {y : β} (hm : (x, y) ∈ a) :
    lookup b x = some y := by
  unfold rowsIn at h
  rw [List.all_eq_true] at h
  simpa using h (x, y) hm

/-- two tables that answer each other's rows answer every key alike -/
theorem lookup_eq_of_rowsIn {a b : List (α × β)} (hab : rowsIn a b = true) (hba : rowsIn b a = true) :
    ∀ s, lookup a s = lookup b s := by
  intro s
  cases ha : lookup a s with
  | some k => exact (rowsIn_mem hab (lookup_of_mem_first ha)).symm
  | none =>
    cases hb : lookup b s with
    | none => rfl
    | some k =>
      have := rowsIn_mem hba (lookup_of_mem_first hb)
      rw [ha] at this; cases this

end Sylvia
