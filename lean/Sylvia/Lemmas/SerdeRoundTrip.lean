import Sylvia.Lemmas.Serde
/-! Round trip of the derive decoder on encodings of well-formed messages. -/
namespace Sylvia.Serde

theorem pairUp_cons (f : FieldSpec) (fs : List FieldSpec) (c : Json) (cs : List Json) :
    pairUp (f :: fs) (c :: cs) = (f.name, c) :: pairUp fs cs := rfl

theorem keys_pairUp : ∀ (fs : List FieldSpec) (cs : List Json), fs.length = cs.length →
    (pairUp fs cs).map Prod.fst = fs.map (·.name)
  | [], [], _ => rfl
  | f :: fs, c :: cs, h => by
    simp only [pairUp_cons, List.map_cons]
    rw [keys_pairUp fs cs (by simpa using h)]
  | [], _ :: _, h => by simp at h
  | _ :: _, [], h => by simp at h

theorem get?_not_key {ms : List (String × Json)} {k : String} (h : k ∉ ms.map Prod.fst) : Json.get? ms k = none := by
  induction ms with
  | nil => rfl
  | cons x r ih =>
    obtain ⟨x1, x2⟩ := x
    simp only [List.map_cons, List.mem_cons, not_or] at h
    have hne : (x1 == k) = false := by simpa using fun e => h.1 e.symm
    simp only [Json.get?, List.find?, hne] at ih ⊢
    exact ih h.2

theorem get?_cons_ne {k k' : String} {v : Json} {r : List (String × Json)} (h : k ≠ k') :
    Json.get? ((k, v) :: r) k' = Json.get? r k' := by
  have : (k == k') = false := by simpa using h
  simp [Json.get?, List.find?, this]

theorem get?_cons_eq {k : String} {v : Json} {r : List (String × Json)} :
    Json.get? ((k, v) :: r) k = some v := by
  simp [Json.get?, List.find?]

theorem hasDupField_false_of_nodup (fs : List FieldSpec) :
    ∀ (ms : List (String × Json)), (ms.map Prod.fst).Nodup → hasDupField fs ms = false
  | [], _ => rfl
  | (k, v) :: ms, h => by
    simp only [List.map_cons, List.nodup_cons] at h
    simp only [hasDupField, Bool.or_eq_false_iff, Bool.and_eq_false_iff]
    refine ⟨Or.inr ?_, hasDupField_false_of_nodup fs ms h.2⟩
    rw [List.any_eq_false]
    intro x hx hxe
    apply h.1
    have : x.1 = k := by simpa using hxe
    rw [← this]
    exact List.mem_map_of_mem hx

/-- every declared field finds its own canonical value in the encoded body -/
theorem mapM_decodeField (b : Bool) : ∀ (pre : List (String × Json)) (fs : List FieldSpec) (cs : List Json),
    fs.length = cs.length → (fs.map (·.name)).Nodup →
    (∀ k ∈ pre.map Prod.fst, k ∉ fs.map (·.name)) →
    (∀ p ∈ fs.zip cs, decodeVal b p.1.ty p.2 = some p.2) →
    fs.mapM (decodeField b (pre ++ pairUp fs cs)) = some (pairUp fs cs)
  | _, [], [], _, _, _, _ => by simp [pairUp]
  | pre, f :: fs, c :: cs, hlen, hnd, hpre, hcan => by
    simp only [List.map_cons, List.nodup_cons] at hnd
    have hget : Json.get? (pre ++ pairUp (f :: fs) (c :: cs)) f.name = some c := by
      rw [pairUp_cons]
      induction pre with
      | nil => exact get?_cons_eq
      | cons x r ih =>
        obtain ⟨x1, x2⟩ := x
        have hx : x1 ≠ f.name := by
          intro e
          exact hpre x1 (by simp) (by simp [e])
        rw [List.cons_append, get?_cons_ne hx]
        exact ih (fun k hk => hpre k (by simp only [List.map_cons, List.mem_cons]; exact Or.inr hk))
    have hc : decodeVal b f.ty c = some c := hcan (f, c) (by simp)
    have hrest := mapM_decodeField b (pre ++ [(f.name, c)]) fs cs (by simpa using hlen) hnd.2
      (by
        intro k hk hk2
        simp only [List.map_append, List.map_cons, List.map_nil, List.mem_append, List.mem_singleton] at hk
        rcases hk with hk | hk
        · exact hpre k hk (by simp only [List.map_cons, List.mem_cons]; exact Or.inr hk2)
        · subst hk; exact hnd.1 hk2)
      (fun p hp => hcan p (by simp only [List.zip_cons_cons, List.mem_cons]; exact Or.inr hp))
    have e : pre ++ pairUp (f :: fs) (c :: cs) = (pre ++ [(f.name, c)]) ++ pairUp fs cs := by
      simp [pairUp_cons]
    simp only [List.mapM_cons, decodeField, hget, hc, Option.map_some]
    rw [e, hrest]
    simp [pairUp_cons]
  | _, [], _ :: _, h, _, _, _ => by simp at h
  | _, _ :: _, [], h, _, _, _ => by simp at h

/-- **struct body round trip**: decoding the encoded body gives the same members back -/
theorem decodeFields_pairUp (b : Bool) (fs : List FieldSpec) (cs : List Json)
    (hlen : fs.length = cs.length) (hnd : (fs.map (·.name)).Nodup)
    (hcan : ∀ p ∈ fs.zip cs, decodeVal b p.1.ty p.2 = some p.2) :
    decodeFields b fs (pairUp fs cs) = some (pairUp fs cs) := by
  unfold decodeFields
  rw [hasDupField_false_of_nodup fs _ (by rw [keys_pairUp fs cs hlen]; exact hnd)]
  simpa using mapM_decodeField b [] fs cs hlen hnd (by simp) hcan

theorem findVariant_go_at : ∀ (vs : List VariantSpec) (base i : Nat) (v : VariantSpec),
    vs[i]? = some v → (∀ j w, j < i → vs[j]? = some w → w.wire ≠ v.wire) →
    findVariant.go v.wire base vs = some (base + i, v)
  | [], _, i, v, h, _ => by simp at h
  | x :: r, base, 0, v, h, _ => by
    simp at h; subst h
    simp [findVariant.go]
  | x :: r, base, i + 1, v, h, hne => by
    have hx : (x.wire == v.wire) = false := by
      have := hne 0 x (by omega) (by simp)
      simpa using this
    simp only [findVariant.go, hx, Bool.false_eq_true, if_false]
    have := findVariant_go_at r (base + 1) i v (by simpa using h)
      (fun j w hj hw => hne (j + 1) w (by omega) (by simpa using hw))
    rw [this]
    congr 2
    omega

/-- with pairwise distinct wire names the variant is found at its own index -/
theorem findVariant_at (vs : List VariantSpec) (i : Nat) (v : VariantSpec) (hv : vs[i]? = some v)
    (hnd : (vs.map (·.wire)).Nodup) : findVariant vs v.wire = some (i, v) := by
  unfold findVariant
  have := findVariant_go_at vs 0 i v hv (by
    intro j w hj hw e
    have hi : i < vs.length := (List.getElem?_eq_some_iff.mp hv).1
    have hjl : j < vs.length := (List.getElem?_eq_some_iff.mp hw).1
    have h1 : (vs.map (·.wire))[j]'(by simpa using hjl) = w.wire := by
      simp [(List.getElem?_eq_some_iff.mp hw).2]
    have h2 : (vs.map (·.wire))[i]'(by simpa using hi) = v.wire := by
      simp [(List.getElem?_eq_some_iff.mp hv).2]
    have := (List.getElem_inj (h₀ := by simpa using hjl) (h₁ := by simpa using hi) hnd).mp (by rw [h1, h2, e])
    omega)
  simpa using this

/-- **C01 round trip (enum messages)**: parsing the JSON a message serialises to gives back the same
variant with the same field values -/
theorem decodeEnum_encodeEnum (b : Bool) (vs : List VariantSpec) (i : Nat) (v : VariantSpec) (cs : List Json)
    (hv : vs[i]? = some v) (hwires : (vs.map (·.wire)).Nodup)
    (hlen : v.fields.length = cs.length) (hnd : (v.fields.map (·.name)).Nodup)
    (hcan : ∀ p ∈ v.fields.zip cs, decodeVal b p.1.ty p.2 = some p.2) :
    decodeEnum b vs (encodeEnum vs i (pairUp v.fields cs)) = some (i, pairUp v.fields cs) := by
  unfold encodeEnum
  simp only [hv, Option.map_some, Option.getD_some]
  unfold decodeEnum
  simp only [findVariant_at vs i v hv hwires, decodeFields_pairUp b v.fields cs hlen hnd hcan, Option.map_some]

theorem findVariant_go_some : ∀ (vs : List VariantSpec) (base n : Nat) (v : VariantSpec) (k : String),
    findVariant.go k base vs = some (n, v) → base ≤ n ∧ vs[n - base]? = some v ∧ v.wire = k
  | [], _, _, _, _, h => by simp [findVariant.go] at h
  | x :: r, base, n, v, k, h => by
    simp only [findVariant.go] at h
    split at h
    · rename_i hc
      cases h
      exact ⟨Nat.le_refl _, by simp, by simpa using hc⟩
    · obtain ⟨h1, h2, h3⟩ := findVariant_go_some r (base + 1) n v k h
      refine ⟨by omega, ?_, h3⟩
      have : n - base = (n - (base + 1)) + 1 := by omega
      rw [this]; simpa using h2

/-- a part that accepts a document owns the document's single key -/
theorem decodeEnum_key (b : Bool) (vs : List VariantSpec) (d : Json) (r : Nat × List (String × Json))
    (h : decodeEnum b vs d = some r) : ∃ k body, d = .obj [(k, body)] ∧ k ∈ vs.map (·.wire) := by
  unfold decodeEnum at h
  split at h
  · rename_i k body
    refine ⟨k, body, rfl, ?_⟩
    split at h
    · rename_i i v hf
      obtain ⟨_, h2, h3⟩ := findVariant_go_some vs 0 i v k hf
      rw [← h3]
      exact List.mem_map_of_mem (List.mem_of_getElem? h2)
    · cases h
  · cases h


end Sylvia.Serde
