import Sylvia.Lemmas.Inter3
/-! Termination of the merge loop, absence of the `unreachable!()` state, and the bridge between
cursor-level facts and the user-level `Disjoint` on the input arrays. -/
set_option linter.unusedSectionVars false
set_option linter.unusedVariables false
namespace Inter
variable {α : Type} [DecidableEq α] {lt : α → α → Bool}

theorem remaining_modify_advance : ∀ (cs : List (Cur α)) (m : Nat) (c : Cur α) (a : α) (t : List α),
    cs[m]? = some c → c.rest = a :: t →
    remaining (cs.modify m Cur.advance) + 1 = remaining cs := by
  intro cs
  induction cs with
  | nil => intro m c a t h; simp at h
  | cons x xs ih =>
    intro m c a t h hr
    cases m with
    | zero =>
      simp at h; subst h
      simp [remaining, List.modify, Cur.advance, hr]
      omega
    | succ n =>
      simp at h
      have := ih n c a t h hr
      simp only [remaining, List.modify_succ_cons, List.map_cons, List.sum_cons] at this ⊢
      omega

theorem remaining_step {cs : List (Cur α)} {m : Nat} {h : α} (hm : hd cs m = some h) :
    remaining (step cs m) + 1 = remaining cs := by
  unfold hd at hm
  cases hc : cs[m]? with
  | none => simp [hc] at hm
  | some c =>
    simp [hc, Cur.head] at hm
    cases hr : c.rest with
    | nil => simp [hr] at hm
    | cons a t => exact remaining_modify_advance cs m c a t hc hr

theorem remaining_zero_shouldEnd : ∀ {cs : List (Cur α)}, remaining cs = 0 → shouldEnd cs = true := by
  intro cs
  induction cs with
  | nil => intro _; rfl
  | cons c cs ih =>
    intro h
    simp only [remaining, List.map_cons, List.sum_cons] at h
    have h1 : c.rest.length = 0 := by omega
    have h2 : remaining cs = 0 := by unfold remaining; omega
    have := ih h2
    unfold shouldEnd at this ⊢
    simp [List.length_eq_zero_iff.mp h1, this]

/-- The selected index is always an ongoing array: the Rust `unreachable!()` arm is dead. -/
theorem nextIndex_ongoing (ord : StrictTotal lt) {cs : List (Cur α)} (he : shouldEnd cs = false) :
    ∃ h, hd cs (nextIndex lt cs) = some h := by
  obtain ⟨l, h', hl⟩ := not_shouldEnd he
  obtain ⟨h, hm, _⟩ := nextIndex_min ord cs l h' hl
  exact ⟨h, hm⟩

theorem loop_terminates (ord : StrictTotal lt) : ∀ (fuel : Nat) (cs : List (Cur α)),
    remaining cs ≤ fuel → loop lt fuel cs ≠ none := by
  intro fuel
  induction fuel with
  | zero =>
    intro cs h
    have := remaining_zero_shouldEnd (cs := cs) (by omega)
    unfold loop; simp [this]
  | succ n ih =>
    intro cs h
    unfold loop
    split
    · simp
    · rename_i he
      have he' : shouldEnd cs = false := by simpa using he
      obtain ⟨x, hx⟩ := nextIndex_ongoing ord he'
      simp only
      split
      · simp
      · apply ih
        have := remaining_step hx
        omega

theorem init_getElem? (msgs : List (List α)) (k : Nat) :
    (init msgs)[k]? = (msgs[k]?).map fun m => ⟨[], m⟩ := by
  simp [init]

theorem remaining_init (msgs : List (List α)) : remaining (init msgs) = (msgs.map List.length).sum := by
  simp [remaining, init, Function.comp_def]

theorem fullDisjoint_init (msgs : List (List α)) : FullDisjoint (init msgs) ↔ Disjoint msgs := by
  constructor
  · intro h i j hij x hx hxj
    have hi : ∃ mi, msgs[i]? = some mi := by
      cases hmi : msgs[i]? with
      | none => simp [List.getD, hmi] at hx
      | some mi => exact ⟨mi, rfl⟩
    have hj : ∃ mj, msgs[j]? = some mj := by
      cases hmj : msgs[j]? with
      | none => simp [List.getD, hmj] at hxj
      | some mj => exact ⟨mj, rfl⟩
    obtain ⟨mi, hmi⟩ := hi
    obtain ⟨mj, hmj⟩ := hj
    simp [List.getD, hmi] at hx
    simp [List.getD, hmj] at hxj
    exact h i j ⟨[], mi⟩ ⟨[], mj⟩ hij (by simp [init_getElem?, hmi]) (by simp [init_getElem?, hmj]) x
      (by simpa [Cur.full] using hx) (by simpa [Cur.full] using hxj)
  · intro h k l ck cl hkl hk hl x hx hxl
    rw [init_getElem?] at hk hl
    cases hmk : msgs[k]? with
    | none => simp [hmk] at hk
    | some mk =>
      cases hml : msgs[l]? with
      | none => simp [hml] at hl
      | some ml =>
        simp [hmk] at hk; simp [hml] at hl
        subst hk; subst hl
        simp [Cur.full] at hx hxl
        exact h k l hkl x (by simpa [List.getD, hmk] using hx) (by simpa [List.getD, hml] using hxl)

theorem inv_init (msgs : List (List α)) : Inv (init msgs) := by
  intro k l ck cl _ hk _ x hx
  rw [init_getElem?] at hk
  cases hmk : msgs[k]? with
  | none => simp [hmk] at hk
  | some mk => simp [hmk] at hk; subst hk; simp at hx

theorem sortedRest_init {msgs : List (List α)} (hs : ∀ m ∈ msgs, Sorted lt m) :
    SortedRest lt (init msgs) := by
  intro c hc
  simp [init] at hc
  obtain ⟨m, hm, rfl⟩ := hc
  exact hs m hm

end Inter
