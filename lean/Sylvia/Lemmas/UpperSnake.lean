import Sylvia.Lemmas.Casing
/-! `ccUpperSnake` (the rule behind reply-id constant names) is injective on names of the property's shape. -/
namespace Casing
open Ch

def joinUs : List (List Ch) → List Ch
  | [] => []
  | [p] => p
  | p :: q :: r => p ++ us :: joinUs (q :: r)

theorem intercalate_eq_joinUs : ∀ ps : List (List Ch), List.intercalate [us] ps = joinUs ps
  | [] => by simp [List.intercalate, joinUs]
  | [p] => by simp [List.intercalate, joinUs]
  | p :: q :: r => by
    have ih := intercalate_eq_joinUs (q :: r)
    simp only [List.intercalate, List.intersperse, List.flatten_cons] at ih ⊢
    simp [joinUs, ← ih]

/-- split on `us`; `cur` is the current piece, reversed -/
def splitUs : List Ch → List Ch → List (List Ch)
  | [], cur => [cur.reverse]
  | c :: r, cur => if c = us then cur.reverse :: splitUs r [] else splitUs r (c :: cur)

theorem splitUs_append : ∀ (p : List Ch), us ∉ p → ∀ (r cur : List Ch), splitUs (p ++ r) cur = splitUs r (p.reverse ++ cur)
  | [], _, r, cur => by simp
  | c :: p, h, r, cur => by
    have hc : c ≠ us := fun e => h (by simp [e])
    have hp : us ∉ p := fun e => h (by simp [e])
    simp only [List.cons_append, splitUs, hc, if_false]
    rw [splitUs_append p hp]
    simp

theorem splitUs_joinUs : ∀ (p : List Ch) (ps : List (List Ch)) (cur : List Ch), (∀ q ∈ p :: ps, us ∉ q) →
    splitUs (joinUs (p :: ps)) cur = (cur.reverse ++ p) :: ps
  | p, [], cur, h => by
    have := splitUs_append p (h p (by simp)) [] cur
    simp only [List.append_nil] at this
    simp [joinUs, this, splitUs]
  | p, q :: r, cur, h => by
    simp only [joinUs]
    rw [splitUs_append p (h p (by simp))]
    simp only [splitUs, if_true]
    rw [splitUs_joinUs q r [] (fun x hx => h x (by simp [List.mem_cons] at hx ⊢; right; exact hx))]
    simp

def Word.upLetters (w : Word) : List Ch := upper w.l0 :: w.ls.map upper
def Word.upPieces (w : Word) : List (List Ch) := if w.ds = [] then [w.upLetters] else [w.upLetters, w.digits]

theorem upPieces_eq (w : Word) : w.pieces.map (·.map toUpper) = w.upPieces := by
  unfold Word.pieces Word.upPieces Word.letters Word.upLetters Word.digits
  split <;> simp [toUpper, Function.comp_def]

theorem upPieces_usfree (w : Word) : ∀ q ∈ w.upPieces, us ∉ q := by
  intro q hq
  unfold Word.upPieces at hq
  split at hq <;> simp [Word.upLetters, Word.digits] at hq
  · subst hq; simp
  · rcases hq with rfl | rfl <;> simp

def unUppers : List Ch → Option (List (Fin 26))
  | [] => some []
  | upper n :: r => (unUppers r).map (n :: ·)
  | _ :: _ => none

def unDigits : List Ch → Option (List (Fin 10))
  | [] => some []
  | digit n :: r => (unDigits r).map (n :: ·)
  | _ :: _ => none

theorem unUppers_map (l : List (Fin 26)) : unUppers (l.map upper) = some l := by
  induction l with
  | nil => rfl
  | cons a l ih => simp [unUppers, ih]

theorem unDigits_map (l : List (Fin 10)) : unDigits (l.map digit) = some l := by
  induction l with
  | nil => rfl
  | cons a l ih => simp [unDigits, ih]

/-- read the pieces back as words: a letters piece, optionally followed by a digits piece -/
def parseWords : Nat → List (List Ch) → Option (List Word)
  | 0, _ => none
  | _ + 1, [] => some []
  | fuel + 1, (upper a :: rest) :: more =>
    match unUppers rest with
    | none => none
    | some ls =>
      match more with
      | (digit d :: ds) :: more' =>
        match unDigits (digit d :: ds), parseWords fuel more' with
        | some dd, some ws => some ({ l0 := a, ls := ls, ds := dd } :: ws)
        | _, _ => none
      | _ => (parseWords fuel more).map ({ l0 := a, ls := ls, ds := [] } :: ·)
  | _ + 1, _ => none

theorem parse_upPieces : ∀ (ws : List Word) (fuel : Nat), ws.length < fuel →
    parseWords fuel ((ws.map Word.upPieces).flatten) = some ws
  | [], fuel + 1, _ => by simp [parseWords]
  | [], 0, h => by simp at h
  | w :: ws, 0, h => by simp at h
  | w :: ws, fuel + 1, h => by
    have hlen : ws.length < fuel := by simp at h; omega
    have ih := parse_upPieces ws fuel hlen
    obtain ⟨l0, ls, ds⟩ := w
    cases ds with
    | nil =>
      simp only [List.map_cons, List.flatten_cons, Word.upPieces, Word.upLetters, if_true, List.singleton_append]
      -- the next piece, if any, starts with an upper-case letter: the digits branch does not fire
      cases ws with
      | nil => simp [parseWords, unUppers_map] ; cases fuel with
        | zero => simp at hlen
        | succ f => simp [parseWords]
      | cons v vs =>
        have hv : ((v :: vs).map Word.upPieces).flatten = (upper v.l0 :: v.ls.map upper) :: ((v.upPieces.drop 1) ++ (vs.map Word.upPieces).flatten) := by
          simp only [List.map_cons, List.flatten_cons, Word.upPieces, Word.upLetters]
          split <;> simp
        rw [hv] at ih ⊢
        simp only [parseWords, unUppers_map]
        rw [ih]
        simp
    | cons d dd =>
      simp only [List.map_cons, List.flatten_cons, Word.upPieces, Word.upLetters, Word.digits, List.cons_ne_nil, if_false,
        List.cons_append, List.nil_append]
      simp only [parseWords, unUppers_map]
      have : unDigits (digit d :: List.map digit dd) = some (d :: dd) := by
        have := unDigits_map (d :: dd); simpa using this
      rw [this, ih]

/-- **`ccUpperSnake` is injective on names of the property's shape** (words of lower-case letters, each optionally
ending in digits, joined by single underscores) -/
theorem upperSnake_injective_on_shape (w w' : Word) (ws ws' : List Word)
    (h : ccUpperSnake (render (w :: ws)) = ccUpperSnake (render (w' :: ws'))) : w :: ws = w' :: ws' := by
  have key : ∀ (v : Word) (vs : List Word), ccUpperSnake (render (v :: vs)) = joinUs (((v :: vs).map Word.upPieces).flatten) := by
    intro v vs
    unfold ccUpperSnake
    rw [ccSplit_render, intercalate_eq_joinUs]
    congr 1
    simp only [List.map_flatten, List.map_map]
    congr 1
    apply List.map_congr_left
    intro x _
    exact upPieces_eq x
  rw [key, key] at h
  have split : ∀ (v : Word) (vs : List Word), splitUs (joinUs (((v :: vs).map Word.upPieces).flatten)) [] = ((v :: vs).map Word.upPieces).flatten := by
    intro v vs
    have hne : ((v :: vs).map Word.upPieces).flatten = v.upLetters :: (v.upPieces.drop 1 ++ (vs.map Word.upPieces).flatten) := by
      simp only [List.map_cons, List.flatten_cons, Word.upPieces]
      split <;> simp
    have hfree : ∀ q ∈ ((v :: vs).map Word.upPieces).flatten, us ∉ q := by
      intro q hq
      simp only [List.mem_flatten, List.mem_map] at hq
      obtain ⟨l, ⟨x, _, rfl⟩, hql⟩ := hq
      exact upPieces_usfree x q hql
    rw [hne] at hfree ⊢
    have := splitUs_joinUs _ _ [] hfree
    simpa using this
  have h2 := congrArg (fun s => splitUs s []) h
  simp only [split] at h2
  have p1 := parse_upPieces (w :: ws) ((w :: ws).length + (w' :: ws').length + 1) (by simp; omega)
  have p2 := parse_upPieces (w' :: ws') ((w :: ws).length + (w' :: ws').length + 1) (by simp; omega)
  rw [h2] at p1
  rw [p1] at p2
  exact Option.some.inj p2

end Casing
