import Sylvia.Model.Casing
namespace Casing
open Ch

def Word.letters (w : Word) : List Ch := lower w.l0 :: w.ls.map lower
def Word.digits (w : Word) : List Ch := w.ds.map digit
def Word.pieces (w : Word) : List (List Ch) := if w.ds = [] then [w.letters] else [w.letters, w.digits]
def Word.camel (w : Word) : List Ch := upper w.l0 :: w.ls.map lower ++ w.ds.map digit

/-- what may follow a run of digits inside a rendered name -/
inductive AfterDigits : List Ch → Prop
  | nil : AfterDigits []
  | us (r) : AfterDigits (us :: r)

theorem splitGo_digits (ds : List (Fin 10)) : ∀ (d : Fin 10) (cur r : List Ch), AfterDigits r →
    splitGo (digit d :: ds.map digit ++ r) cur =
      match r with
      | [] => [cur.reverse ++ digit d :: ds.map digit]
      | _ :: r' => (cur.reverse ++ digit d :: ds.map digit) :: splitGo r' [] := by
  induction ds with
  | nil =>
    intro d cur r hr
    cases hr with
    | nil => simp [splitGo, boundaryAfter]
    | us r' => simp [splitGo, boundaryAfter, isDigit, isLower, isUpper]
  | cons e ds ih =>
    intro d cur r hr
    have := ih e (digit d :: cur) r hr
    simp only [List.map_cons, List.cons_append]
    rw [splitGo]
    simp only [reduceCtorEq, if_false, boundaryAfter, isDigit, isLower, isUpper, Bool.and_false, Bool.false_and,
      Bool.or_false, Bool.false_eq_true]
    simp only [List.map_cons, List.cons_append] at this
    rw [this]
    cases r <;> simp

theorem splitGo_letters (ls : List (Fin 26)) : ∀ (a : Fin 26) (cur r : List Ch),
    (r = [] ∨ (∃ r', r = us :: r') ∨ (∃ d r', r = digit d :: r')) →
    splitGo (lower a :: ls.map lower ++ r) cur =
      match r with
      | [] => [cur.reverse ++ lower a :: ls.map lower]
      | us :: r' => (cur.reverse ++ lower a :: ls.map lower) :: splitGo r' []
      | c :: r' => (cur.reverse ++ lower a :: ls.map lower) :: splitGo (c :: r') [] := by
  induction ls with
  | nil =>
    intro a cur r hr
    rcases hr with rfl | ⟨r', rfl⟩ | ⟨d, r', rfl⟩
    · simp [splitGo, boundaryAfter]
    · simp [splitGo, boundaryAfter, isDigit, isLower, isUpper]
    · simp [splitGo, boundaryAfter, isDigit, isLower, isUpper]
  | cons b ls ih =>
    intro a cur r hr
    have := ih b (lower a :: cur) r hr
    simp only [List.map_cons, List.cons_append]
    rw [splitGo]
    simp only [reduceCtorEq, if_false, boundaryAfter, isDigit, isLower, isUpper, Bool.and_false, Bool.false_and,
      Bool.or_false, Bool.false_eq_true, Bool.and_true, Bool.true_and]
    simp only [List.map_cons, List.cons_append] at this
    rw [this]
    rcases hr with rfl | ⟨r', rfl⟩ | ⟨d, r', rfl⟩ <;> simp

/-- splitting one word followed by `[]` or `_ :: r'` -/
theorem splitGo_word (w : Word) (r : List Ch) (hr : AfterDigits r) :
    splitGo (w.chars ++ r) [] = match r with
      | [] => w.pieces
      | _ :: r' => w.pieces ++ splitGo r' [] := by
  unfold Word.chars Word.pieces Word.letters Word.digits
  cases hds : w.ds with
  | nil =>
    simp only [List.map_nil, List.append_nil, if_true]
    have := splitGo_letters w.ls w.l0 [] r (by cases hr <;> simp)
    simp only [List.cons_append] at this ⊢
    rw [this]
    cases hr <;> simp
  | cons d ds =>
    simp only [List.map_cons, reduceCtorEq, if_false]
    have h1 := splitGo_letters w.ls w.l0 [] (digit d :: ds.map digit ++ r) (Or.inr (Or.inr ⟨d, _, rfl⟩))
    simp only [List.cons_append, List.append_assoc] at h1 ⊢
    rw [h1]
    have h2 := splitGo_digits ds d [] r hr
    simp only [List.cons_append] at h2
    rw [h2]
    cases hr <;> simp

theorem splitGo_render : ∀ (w : Word) (ws : List Word),
    splitGo (render (w :: ws)) [] = ((w :: ws).map Word.pieces).flatten := by
  intro w ws
  induction ws generalizing w with
  | nil =>
    have := splitGo_word w [] AfterDigits.nil
    simpa [render] using this
  | cons v vs ih =>
    have := splitGo_word w (us :: render (v :: vs)) (AfterDigits.us _)
    simp only [render] at this ⊢
    rw [this, ih v]
    simp

theorem pieces_nonempty (w : Word) : ∀ p ∈ w.pieces, p ≠ [] := by
  intro p hp
  unfold Word.pieces at hp
  split at hp
  · simp [Word.letters] at hp; subst hp; simp
  · rename_i h
    simp [Word.letters, Word.digits] at hp
    rcases hp with rfl | rfl
    · simp
    · cases hd : w.ds with
      | nil => exact absurd hd h
      | cons a t => simp

theorem ccSplit_render (w : Word) (ws : List Word) :
    ccSplit (render (w :: ws)) = ((w :: ws).map Word.pieces).flatten := by
  unfold ccSplit
  rw [splitGo_render]
  apply List.filter_eq_self.mpr
  intro p hp
  simp only [List.mem_flatten, List.mem_map] at hp
  obtain ⟨l, ⟨v, _, rfl⟩, hpl⟩ := hp
  simpa using pieces_nonempty v p hpl

theorem capital_pieces (w : Word) : (w.pieces.map capital).flatten = w.camel := by
  unfold Word.pieces Word.camel Word.letters Word.digits
  cases hds : w.ds with
  | nil => simp [capital, toUpper, toLower, Function.comp_def]
  | cons d ds => simp [capital, toUpper, toLower, Function.comp_def]

theorem upperCamel_render (w : Word) (ws : List Word) :
    ccUpperCamel (render (w :: ws)) = ((w :: ws).map Word.camel).flatten := by
  unfold ccUpperCamel
  rw [ccSplit_render]
  generalize (w :: ws) = l
  induction l with
  | nil => simp
  | cons v vs ih =>
    simp only [List.map_cons, List.flatten_cons, List.map_append, List.flatten_append]
    rw [capital_pieces, ih]

theorem serdeGo_lowers (ls : List (Fin 26)) (b : Bool) (r : List Ch) :
    serdeGo b (ls.map lower ++ r) = ls.map lower ++ serdeGo (b && ls.isEmpty) r := by
  induction ls generalizing b with
  | nil => simp
  | cons a t ih => simp [serdeGo, isUpper, toLower, ih]

theorem serdeGo_digits (ds : List (Fin 10)) (b : Bool) (r : List Ch) :
    serdeGo b (ds.map digit ++ r) = ds.map digit ++ serdeGo (b && ds.isEmpty) r := by
  induction ds generalizing b with
  | nil => simp
  | cons a t ih => simp [serdeGo, isUpper, toLower, ih]

theorem serdeGo_camel (w : Word) (b : Bool) (r : List Ch) :
    serdeGo b (w.camel ++ r) = (if b then w.chars else us :: w.chars) ++ serdeGo false r := by
  unfold Word.camel Word.chars
  cases b <;>
    simp [serdeGo, isUpper, toLower, serdeGo_lowers, serdeGo_digits, List.append_assoc]

theorem serdeGo_false_words (ws : List Word) :
    serdeGo false ((ws.map Word.camel).flatten) = (ws.map fun w => us :: w.chars).flatten := by
  induction ws with
  | nil => simp [serdeGo]
  | cons w ws ih => simp [serdeGo_camel, ih]

theorem render_cons (w : Word) (ws : List Word) :
    render (w :: ws) = w.chars ++ (ws.map fun v => us :: v.chars).flatten := by
  induction ws generalizing w with
  | nil => simp [render]
  | cons v vs ih => simp [render, ih v]

/-- C01 core: for every name in the property's shape the wire name is the method name. -/
theorem wire_name_shape (w : Word) (ws : List Word) :
    serdeSnake (ccUpperCamel (render (w :: ws))) = render (w :: ws) := by
  unfold serdeSnake
  rw [upperCamel_render, render_cons]
  simp [serdeGo_camel, serdeGo_false_words]

end Casing
