import Sylvia.Model.Gen
import Sylvia.Lemmas.Lex
/-! `Gen.sortStrings` (the model of `Vec<String>::sort`) returns a permutation of its input that is
ordered by the byte-wise order `konst::cmp_str` uses. -/
namespace Sylvia.Gen
open Lex

theorem strLe_total (a b : String) : strLe a b = true ∨ strLe b a = true := by
  unfold strLe
  cases h : lexLt (bytesOf b) (bytesOf a) with
  | false => simp
  | true =>
    right
    cases h2 : lexLt (bytesOf a) (bytesOf b) with
    | false => simp
    | true =>
      have := lexLt_trans _ _ _ h h2
      rw [lexLt_irrefl] at this; cases this

theorem strLe_trans (a b c : String) (h1 : strLe a b = true) (h2 : strLe b c = true) : strLe a c = true := by
  unfold strLe at *
  simp only [Bool.not_eq_true'] at *
  cases hca : lexLt (bytesOf c) (bytesOf a) with
  | false => rfl
  | true =>
    exfalso
    rcases lexLt_total (bytesOf a) (bytesOf b) with hab | hab | hab
    · have := lexLt_trans _ _ _ hca hab
      rw [h2] at this; cases this
    · rw [hab] at hca; rw [h2] at hca; cases hca
    · rw [h1] at hab; cases hab

theorem insertStr_perm (x : String) : ∀ l : List String, (insertStr x l).Perm (x :: l)
  | [] => List.Perm.refl _
  | y :: r => by
    simp only [insertStr]
    split
    · exact List.Perm.refl _
    · exact ((insertStr_perm x r).cons y).trans (List.Perm.swap _ _ _)

theorem sortStrings_perm : ∀ l : List String, (sortStrings l).Perm l
  | [] => List.Perm.refl _
  | x :: r => (insertStr_perm x _).trans ((sortStrings_perm r).cons x)

theorem mem_sortStrings {x : String} {l : List String} : x ∈ sortStrings l ↔ x ∈ l :=
  (sortStrings_perm l).mem_iff

theorem insertStr_pairwise (x : String) : ∀ l : List String, l.Pairwise (fun a b => strLe a b = true) →
    (insertStr x l).Pairwise (fun a b => strLe a b = true)
  | [], _ => by simp [insertStr]
  | y :: r, h => by
    simp only [insertStr]
    rw [List.pairwise_cons] at h
    split
    · rename_i hxy
      rw [List.pairwise_cons]
      refine ⟨?_, List.pairwise_cons.mpr h⟩
      intro z hz
      rcases List.mem_cons.mp hz with rfl | hz
      · exact hxy
      · exact strLe_trans _ _ _ hxy (h.1 z hz)
    · rename_i hxy
      have hyx : strLe y x = true := by
        rcases strLe_total x y with h' | h'
        · exact absurd h' hxy
        · exact h'
      rw [List.pairwise_cons]
      refine ⟨?_, insertStr_pairwise x r h.2⟩
      intro z hz
      have hz2 : z = x ∨ z ∈ r := by simpa using (insertStr_perm x r).mem_iff.mp hz
      rcases hz2 with rfl | hz2
      · exact hyx
      · exact h.1 z hz2

theorem sortStrings_pairwise : ∀ l : List String, (sortStrings l).Pairwise (fun a b => strLe a b = true)
  | [] => List.Pairwise.nil
  | x :: r => insertStr_pairwise x _ (sortStrings_pairwise r)

/-- strictly increasing in the byte order whenever the names are distinct as byte strings:
the precondition of `assert_no_intersection` -/
theorem sortStrings_sorted (l : List String) (hnd : (l.map bytesOf).Nodup) :
    Inter.Sorted lexLt ((sortStrings l).map bytesOf) := by
  have hp : ((sortStrings l).map bytesOf).Perm (l.map bytesOf) := (sortStrings_perm l).map _
  have hnd' : ((sortStrings l).map bytesOf).Nodup := hp.nodup_iff.mpr hnd
  have hpw := sortStrings_pairwise l
  generalize sortStrings l = s at hnd' hpw
  induction s with
  | nil => trivial
  | cons a r ih =>
    rw [List.pairwise_cons] at hpw
    simp only [List.map_cons, List.nodup_cons] at hnd'
    refine ⟨?_, ih hnd'.2 hpw.2⟩
    intro y hy
    obtain ⟨b, hb, rfl⟩ := List.mem_map.mp hy
    have hle := hpw.1 b hb
    unfold strLe at hle
    rcases lexLt_total (bytesOf a) (bytesOf b) with h | h | h
    · exact h
    · exfalso; apply hnd'.1; rw [h]; exact List.mem_map_of_mem hb
    · rw [h] at hle; cases hle

end Sylvia.Gen
