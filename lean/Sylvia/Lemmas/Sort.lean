import Sylvia.Model.Gen
import Sylvia.Lemmas.Lex
/-! `Gen.sortStrings` (the model of `Vec<String>::sort`) returns a permutation of its input that is
ordered by the byte-wise order `konst::cmp_str` uses. -/
namespace Sylvia.Gen
open Lex

theorem strLe_total (a b : String) : strLe a b = true ∨ strLe b a = true := by
  unfold strLe
  cases h : lexLt (bytesOf b) (bytesOf a) with
  | false => simp
  | true =>
    right
    cases h2 : lexLt (bytesOf a) (bytesOf b) with
    | false => simp
    | true =>
      have := lexLt_trans _ _ _ h h2
      rw [lexLt_irrefl] at this; cases this

theorem strLe_trans (a b c : String) (h1 : strLe a b = true) (h2 : strLe b c = true) : strLe a c = true := by
  unfold strLe at *
  simp only [Bool.not_eq_true'] at *
  cases hca : lexLt (bytesOf c) (bytesOf a) with
  | false => rfl
  | true =>
    exfalso
    rcases lexLt_total (bytesOf a) (bytesOf b) with hab | hab | hab
    · have := lexLt_trans _ _ _ hca hab
      rw [h2] at this; cases this
    · rw [hab] at hca; rw [h2] at hca; cases hca
    · rw [h1] at hab; cases hab

theorem insertStr_perm (x : String) : ∀ l : List String, (insertStr x l).Perm (x :: l)
  | [] => List.Perm.refl _
  | y :: r => by
    simp only [insertStr]
    split
    · exact List.Perm.refl _
    · exact ((insertStr_perm x r).cons y).trans (List.Perm.swap _ _ _)

theorem sortStrings_perm : ∀ l : List String, (sortStrings l).Perm l
  | [] => List.Perm.refl _
  | x :: r => (insertStr_perm x _).trans ((sortStrings_perm r).cons x)

theorem mem_sortStrings {x : String} {l : List String} : x ∈ sortStrings l ↔ x ∈ l :=
  (sortStrings_perm l).mem_iff

theorem insertStr_pairwise (x : String) : ∀ l : List String, l.Pairwise (fun a b => strLe a b = true) →
    (insertStr x l).Pairwise (fun a b => strLe a b = true)
  | [], _ => by simp [insertStr]
  | y :: r, h => by
    simp only [insertStr]
    rw [List.pairwise_cons] at h
    split
    · rename_i hxy
      rw [List.pairwise_cons]
      refine ⟨?_, List.pairwise_cons.mpr h⟩
      intro z hz
      rcases List.mem_cons.mp hz with rfl | hz
      · exact hxy
      · exact strLe_trans _ _ _ hxy (h.1 z hz)
    · rename_i hxy
      have hyx : strLe y x = true := by
        rcases strLe_total x y with h' | h'
        · exact absurd h' hxy
        · exact h'
      rw [List.pairwise_cons]
      refine ⟨?_, insertStr_pairwise x r h.2⟩
      intro z hz
      have hz2 : z = x ∨ z ∈ r := by simpa using (insertStr_perm x r).mem_iff.mp hz
      rcases hz2 with rfl | hz2
      · exact hyx
      · exact h.1 z hz2

theorem sortStrings_pairwise : ∀ l : List String, (sortStrings l).Pairwise (fun a b => strLe a b = true)
  | [] => List.Pairwise.nil
  | x :: r => insertStr_pairwise x _ (sortStrings_pairwise r)

/-- strictly increasing in the byte order whenever the names are distinct as byte strings:
the precondition of `assert_no_intersection` -/
theorem sortStrings_sorted (l : List String) (hnd : (l.map bytesOf).Nodup) :
    Inter.Sorted lexLt ((sortStrings l).map bytesOf) := by
  have hp : ((sortStrings l).map bytesOf).Perm (l.map bytesOf) := (sortStrings_perm l).map _
  have hnd' : ((sortStrings l).map bytesOf).Nodup := hp.nodup_iff.mpr hnd
  have hpw := sortStrings_pairwise l
  generalize sortStrings l = s at hnd' hpw
  induction s with
  | nil => trivial
  | cons a r ih =>
    rw [List.pairwise_cons] at hpw
    simp only [List.map_cons, List.nodup_cons] at hnd'
    refine ⟨?_, ih hnd'.2 hpw.2⟩
    intro y hy
    obtain ⟨b, hb, rfl⟩ := List.mem_map.mp hy
    have hle := hpw.1 b hb
    unfold strLe at hle
    rcases lexLt_total (bytesOf a) (bytesOf b) with h | h | h
    · exact h
    · exfalso; apply hnd'.1; rw [h]; exact List.mem_map_of_mem hb
    · rw [h] at hle; cases hle

theorem map_toNat_inj : ∀ (l1 l2 : List UInt8), l1.map (·.toNat) = l2.map (·.toNat) → l1 = l2
  | [], [], _ => rfl
  | [], _ :: _, h => by simp at h
  | _ :: _, [], h => by simp at h
  | x :: xs, y :: ys, h => by
    simp only [List.map_cons, List.cons.injEq] at h
    rw [UInt8.toNat_inj.mp h.1, map_toNat_inj xs ys h.2]

/-- two strings with the same UTF-8 bytes are the same string -/
theorem bytesOf_inj {a b : String} (h : bytesOf a = bytesOf b) : a = b := by
  unfold bytesOf at h
  have h1 := map_toNat_inj _ _ h
  have h2 : a.toUTF8.data = b.toUTF8.data := Array.toList_inj.mp h1
  have h3 : a.toUTF8 = b.toUTF8 := by
    generalize a.toUTF8 = x at h2
    generalize b.toUTF8 = y at h2
    cases x; cases y
    simp at h2; simp [h2]
  exact String.toByteArray_inj.mp h3

theorem strLe_antisymm (a b : String) (h1 : strLe a b = true) (h2 : strLe b a = true) : a = b := by
  unfold strLe at h1 h2
  simp only [Bool.not_eq_true'] at h1 h2
  rcases lexLt_total (bytesOf a) (bytesOf b) with h | h | h
  · rw [h2] at h; cases h
  · exact bytesOf_inj h
  · rw [h1] at h; cases h

/-- a list sorted by an antisymmetric order is determined by its multiset of elements -/
theorem perm_sorted_eq : ∀ (l1 l2 : List String), l1.Perm l2 →
    l1.Pairwise (fun a b => strLe a b = true) → l2.Pairwise (fun a b => strLe a b = true) → l1 = l2
  | [], l2, hp, _, _ => by simpa using hp.symm.eq_nil
  | a :: r1, [], hp, _, _ => by simpa using hp.eq_nil
  | a :: r1, b :: r2, hp, h1, h2 => by
    rw [List.pairwise_cons] at h1 h2
    have hab : a = b := by
      have ha : a ∈ b :: r2 := hp.mem_iff.mp (by simp)
      have hb : b ∈ a :: r1 := hp.mem_iff.mpr (by simp)
      rcases List.mem_cons.mp ha with e | ha'
      · exact e
      · rcases List.mem_cons.mp hb with e | hb'
        · exact e.symm
        · exact strLe_antisymm a b (h1.1 b hb') (h2.1 a ha')
    subst hab
    rw [perm_sorted_eq r1 r2 (List.Perm.cons_inv hp) h1.2 h2.2]

/-- **sorting forgets the input order** -/
theorem sortStrings_perm_eq {l l' : List String} (h : l.Perm l') : sortStrings l = sortStrings l' :=
  perm_sorted_eq _ _ ((sortStrings_perm l).trans (h.trans (sortStrings_perm l').symm)) (sortStrings_pairwise l) (sortStrings_pairwise l')

end Sylvia.Gen
