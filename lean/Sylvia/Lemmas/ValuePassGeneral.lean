import Sylvia.Lemmas.ValuePass
/-! The wrapper's value pass on *arbitrary* documents of an explicit domain: no repeated member names, numbers the
generic value can hold, and no sequence where only the value pass is lenient. On that domain the pass followed by
the derive decoder agrees with the derive decoder on the text. -/
namespace Sylvia.Serde

mutual
/-- numbers the generic value can hold and distinct member names, at every level -/
def Plain : Json → Prop
  | .num t => valueNumOk t = true
  | .arr xs => PlainList xs
  | .obj ms => (ms.map Prod.fst).Nodup ∧ PlainMembers ms
  | _ => True
def PlainList : List Json → Prop
  | [] => True
  | x :: xs => Plain x ∧ PlainList xs
def PlainMembers : List (String × Json) → Prop
  | [] => True
  | (_, v) :: ms => Plain v ∧ PlainMembers ms
end

/-- the value is not one of the sequences only the value pass accepts for the type: a struct written as an array,
a tuple with surplus elements -/
def Strict : VTy → Json → Prop
  | .empty, .arr _ => False
  | .option _, .null => True
  | .option t, j => Strict t j
  | .vec t, .arr xs => StrictAll t xs
  | .pair a b, .arr [x, y] => Strict a x ∧ Strict b y
  | .pair _ _, .arr (_ :: _ :: _ :: _) => False
  | _, _ => True
where StrictAll : VTy → List Json → Prop
  | _, [] => True
  | t, x :: xs => Strict t x ∧ StrictAll t xs

-- ------------------------------------------------------------------------------------------------
-- the pass succeeds on plain documents and keeps the outer constructor
-- ------------------------------------------------------------------------------------------------

theorem insertSorted_ne_nil (k : String) (v : Json) (acc : List (String × Json)) : insertSorted k v acc ≠ [] := by
  cases acc with
  | nil => simp [insertSorted]
  | cons x r =>
    obtain ⟨k', v'⟩ := x
    simp only [insertSorted]
    split
    · simp
    · split <;> simp

mutual
theorem normalize_total : ∀ j : Json, Plain j → ∃ j', normalize j = some j'
  | .null, _ => ⟨_, rfl⟩
  | .bool _, _ => ⟨_, rfl⟩
  | .num t, h => by simp only [Plain] at h; exact ⟨.num t, by simp [normalize, h]⟩
  | .str _, _ => ⟨_, rfl⟩
  | .arr xs, h => by
    simp only [Plain] at h
    obtain ⟨xs', hx⟩ := normalizeList_total xs h
    exact ⟨.arr xs', by simp [normalize, hx]⟩
  | .obj ms, h => by
    simp only [Plain] at h
    obtain ⟨ms', hm⟩ := normalizeMembers_total ms [] h.2
    exact ⟨.obj ms', by simp [normalize, hm]⟩
theorem normalizeList_total : ∀ xs : List Json, PlainList xs → ∃ xs', normalizeList xs = some xs'
  | [], _ => ⟨[], rfl⟩
  | x :: xs, h => by
    simp only [PlainList] at h
    obtain ⟨x', hx⟩ := normalize_total x h.1
    obtain ⟨xs', hxs⟩ := normalizeList_total xs h.2
    exact ⟨x' :: xs', by simp [normalizeList, hx, hxs]⟩
theorem normalizeMembers_total : ∀ (ms acc : List (String × Json)), PlainMembers ms → ∃ r, normalizeMembers ms acc = some r
  | [], acc, _ => ⟨acc, rfl⟩
  | (k, v) :: ms, acc, h => by
    simp only [PlainMembers] at h
    obtain ⟨v', hv⟩ := normalize_total v h.1
    obtain ⟨r, hr⟩ := normalizeMembers_total ms (insertSorted k v' acc) h.2
    exact ⟨r, by simp [normalizeMembers, hv, hr]⟩
end

/-- same outer constructor before and after the pass -/
def sameKind : Json → Json → Prop
  | .null, .null => True | .bool _, .bool _ => True | .num _, .num _ => True | .str _, .str _ => True
  | .arr _, .arr _ => True | .obj _, .obj _ => True | _, _ => False

theorem normalize_sameKind (j j' : Json) (h : normalize j = some j') : sameKind j j' := by
  cases j with
  | null => simp [normalize] at h; subst h; trivial
  | bool b => simp [normalize] at h; subst h; trivial
  | num t => simp [normalize] at h; obtain ⟨_, rfl⟩ := h; trivial
  | str s => simp [normalize] at h; subst h; trivial
  | arr xs => simp [normalize] at h; obtain ⟨_, _, rfl⟩ := h; trivial
  | obj ms => simp [normalize] at h; obtain ⟨_, _, rfl⟩ := h; trivial

theorem normalizeList_cons {x : Json} {xs r : List Json} (h : normalizeList (x :: xs) = some r) :
    ∃ x' xs', normalize x = some x' ∧ normalizeList xs = some xs' ∧ r = x' :: xs' := by
  simp only [normalizeList, Option.bind_eq_bind] at h
  cases hx : normalize x with
  | none => simp [hx] at h
  | some x' =>
    cases hxs : normalizeList xs with
    | none => simp [hx, hxs] at h
    | some xs' => simp [hx, hxs] at h; exact ⟨x', xs', rfl, rfl, h.symm⟩

-- ------------------------------------------------------------------------------------------------
-- values: the pass is invisible to the derive decoder on strict values
-- ------------------------------------------------------------------------------------------------

theorem decodeVal_after_pass : ∀ (t : VTy) (j j' : Json), normalize j = some j' → Strict t j →
    decodeVal true t j' = decodeVal false t j := by
  intro t
  induction t with
  | u bits => intro j j' hn _; cases j <;> simp [normalize] at hn <;> (try obtain ⟨_, _, rfl⟩ := hn) <;> (try obtain ⟨_, rfl⟩ := hn) <;> (try subst hn) <;> simp [decodeVal]
  | i bits => intro j j' hn _; cases j <;> simp [normalize] at hn <;> (try obtain ⟨_, _, rfl⟩ := hn) <;> (try obtain ⟨_, rfl⟩ := hn) <;> (try subst hn) <;> simp [decodeVal]
  | bool => intro j j' hn _; cases j <;> simp [normalize] at hn <;> (try obtain ⟨_, _, rfl⟩ := hn) <;> (try obtain ⟨_, rfl⟩ := hn) <;> (try subst hn) <;> simp [decodeVal]
  | string => intro j j' hn _; cases j <;> simp [normalize] at hn <;> (try obtain ⟨_, _, rfl⟩ := hn) <;> (try obtain ⟨_, rfl⟩ := hn) <;> (try subst hn) <;> simp [decodeVal]
  | uint128 => intro j j' hn _; cases j <;> simp [normalize] at hn <;> (try obtain ⟨_, _, rfl⟩ := hn) <;> (try obtain ⟨_, rfl⟩ := hn) <;> (try subst hn) <;> simp [decodeVal]
  | binary => intro j j' hn _; cases j <;> simp [normalize] at hn <;> (try obtain ⟨_, _, rfl⟩ := hn) <;> (try obtain ⟨_, rfl⟩ := hn) <;> (try subst hn) <;> simp [decodeVal]
  | addr => intro j j' hn _; cases j <;> simp [normalize] at hn <;> (try obtain ⟨_, _, rfl⟩ := hn) <;> (try obtain ⟨_, rfl⟩ := hn) <;> (try subst hn) <;> simp [decodeVal]
  | empty =>
    intro j j' hn hs
    cases j <;> simp [normalize] at hn <;> (try obtain ⟨_, _, rfl⟩ := hn) <;> (try obtain ⟨_, rfl⟩ := hn) <;> (try subst hn) <;> simp [decodeVal]
    all_goals simp [Strict] at hs
  | option t ih =>
    intro j j' hn hs
    have hk := normalize_sameKind j j' hn
    cases j with
    | null => simp [normalize] at hn; subst hn; simp [decodeVal]
    | bool b => cases j' <;> simp [sameKind] at hk; simp only [Strict] at hs; simpa [decodeVal] using ih _ _ hn hs
    | num s => cases j' <;> simp [sameKind] at hk; simp only [Strict] at hs; simpa [decodeVal] using ih _ _ hn hs
    | str s => cases j' <;> simp [sameKind] at hk; simp only [Strict] at hs; simpa [decodeVal] using ih _ _ hn hs
    | arr xs => cases j' <;> simp [sameKind] at hk; simp only [Strict] at hs; simpa [decodeVal] using ih _ _ hn hs
    | obj ms => cases j' <;> simp [sameKind] at hk; simp only [Strict] at hs; simpa [decodeVal] using ih _ _ hn hs
  | vec t ih =>
    intro j j' hn hs
    cases j <;> simp [normalize] at hn <;> (try obtain ⟨_, _, rfl⟩ := hn) <;> (try obtain ⟨_, rfl⟩ := hn) <;> (try subst hn) <;> (try simp [decodeVal])
    rename_i xs xs' hxs
    simp only [Strict] at hs
    have : ∀ (xs xs' : List Json), normalizeList xs = some xs' → Strict.StrictAll t xs → decodeVals true t xs' = decodeVals false t xs := by
      intro xs
      induction xs with
      | nil => intro xs' h _; simp [normalizeList] at h; subst h; simp [decodeVals]
      | cons x r ihr =>
        intro xs' h hst
        obtain ⟨x', r', hx, hr, rfl⟩ := normalizeList_cons h
        simp only [Strict.StrictAll] at hst
        simp only [decodeVals, Option.bind_eq_bind, ih _ _ hx hst.1, ihr _ hr hst.2]
    rw [this xs xs' hxs hs]
  | pair a b iha ihb =>
    intro j j' hn hs
    cases j <;> simp [normalize] at hn <;> (try obtain ⟨_, _, rfl⟩ := hn) <;> (try obtain ⟨_, rfl⟩ := hn) <;> (try subst hn) <;> (try simp [decodeVal])
    rename_i xs xs' hxs
    match xs, hxs, hs with
    | [], hxs, _ => simp [normalizeList] at hxs; subst hxs; simp [decodeVal]
    | [x], hxs, _ =>
      obtain ⟨x', r', _, hr, rfl⟩ := normalizeList_cons hxs
      simp [normalizeList] at hr; subst hr; simp [decodeVal]
    | [x, y], hxs, hs =>
      obtain ⟨x', r', hx, hr, rfl⟩ := normalizeList_cons hxs
      obtain ⟨y', r'', hy, hr2, rfl⟩ := normalizeList_cons hr
      simp [normalizeList] at hr2; subst hr2
      simp only [Strict] at hs
      simp only [decodeVal, Option.bind_eq_bind, iha _ _ hx hs.1, ihb _ _ hy hs.2]
    | _ :: _ :: _ :: _, _, hs => simp [Strict] at hs

-- ------------------------------------------------------------------------------------------------
-- member lists
-- ------------------------------------------------------------------------------------------------

/-- keys strictly increasing: the invariant of the map the pass builds -/
def SortedKeys (l : List (String × Json)) : Prop := l.Pairwise fun a b => a.1 < b.1

theorem mem_insertSorted (k : String) (v : Json) : ∀ (acc : List (String × Json)) (b : String × Json),
    b ∈ insertSorted k v acc → b = (k, v) ∨ b ∈ acc
  | [], b, h => by simp [insertSorted] at h; exact Or.inl h
  | (k', v') :: r, b, h => by
    simp only [insertSorted] at h
    split at h
    · simp only [List.mem_cons] at h ⊢
      rcases h with h | h
      · exact Or.inl h
      · exact Or.inr (Or.inr h)
    · split at h
      · simp only [List.mem_cons] at h ⊢
        rcases h with h | h | h
        · exact Or.inl h
        · exact Or.inr (Or.inl h)
        · exact Or.inr (Or.inr h)
      · simp only [List.mem_cons] at h ⊢
        rcases h with h | h
        · exact Or.inr (Or.inl h)
        · rcases mem_insertSorted k v r b h with h | h
          · exact Or.inl h
          · exact Or.inr (Or.inr h)

theorem insertSorted_sorted (k : String) (v : Json) : ∀ (acc : List (String × Json)), SortedKeys acc → SortedKeys (insertSorted k v acc)
  | [], _ => by simp [insertSorted, SortedKeys]
  | (k', v') :: r, h => by
    unfold SortedKeys at h ⊢
    rw [List.pairwise_cons] at h
    simp only [insertSorted]
    split
    · rename_i he
      have : k = k' := beq_iff_eq.mp he
      subst this
      rw [List.pairwise_cons]
      exact h
    · rename_i hne
      have hne' : k ≠ k' := by simpa using hne
      split
      · rename_i hlt
        have hlt' : k < k' := by simpa [strLt] using hlt
        rw [List.pairwise_cons]
        refine ⟨?_, List.pairwise_cons.mpr h⟩
        intro b hb
        simp only [List.mem_cons] at hb
        rcases hb with rfl | hb
        · exact hlt'
        · exact String.lt_trans hlt' (h.1 b hb)
      · rename_i hnlt
        have hnlt' : ¬ k < k' := by simpa [strLt] using hnlt
        have hgt : k' < k := by
          apply Classical.byContradiction
          intro hn
          exact hne' (String.le_antisymm (String.not_lt.mp hn) (String.not_lt.mp hnlt'))
        rw [List.pairwise_cons]
        refine ⟨?_, insertSorted_sorted k v r h.2⟩
        intro b hb
        rcases mem_insertSorted k v r b hb with rfl | hb
        · exact hgt
        · exact h.1 b hb

theorem sorted_keys_nodup (l : List (String × Json)) (h : SortedKeys l) : (l.map Prod.fst).Nodup := by
  unfold SortedKeys at h
  rw [List.Nodup, List.pairwise_map]
  exact h.imp (fun {a b} hab e => by rw [e] at hab; exact String.lt_irrefl _ hab)

theorem normalizeMembers_sorted : ∀ (ms acc r : List (String × Json)), SortedKeys acc → normalizeMembers ms acc = some r → SortedKeys r
  | [], acc, r, ha, h => by simp [normalizeMembers] at h; subst h; exact ha
  | (k, v) :: ms, acc, r, ha, h => by
    simp only [normalizeMembers, Option.bind_eq_bind] at h
    cases hv : normalize v with
    | none => simp [hv] at h
    | some v' =>
      simp only [hv, Option.bind_some] at h
      exact normalizeMembers_sorted ms _ r (insertSorted_sorted k v' acc ha) h

/-- every member value went through the pass -/
theorem normalizeMembers_each : ∀ (ms acc r : List (String × Json)), normalizeMembers ms acc = some r →
    ∀ p ∈ ms, ∃ v', normalize p.2 = some v'
  | [], _, _, _, p, hp => by simp at hp
  | (k, v) :: ms, acc, r, h, p, hp => by
    simp only [normalizeMembers, Option.bind_eq_bind] at h
    cases hv : normalize v with
    | none => simp [hv] at h
    | some v' =>
      simp only [hv, Option.bind_some] at h
      simp only [List.mem_cons] at hp
      rcases hp with rfl | hp
      · exact ⟨v', hv⟩
      · exact normalizeMembers_each ms _ r h p hp

theorem normalizeMembers_get : ∀ (ms acc r : List (String × Json)) (k : String), (ms.map Prod.fst).Nodup →
    normalizeMembers ms acc = some r →
    Json.get? r k = if k ∈ ms.map Prod.fst then (Json.get? ms k).bind normalize else Json.get? acc k
  | [], acc, r, k, _, h => by simp [normalizeMembers] at h; subst h; simp
  | (k0, v0) :: ms, acc, r, k, hnd, h => by
    simp only [List.map_cons, List.nodup_cons] at hnd
    simp only [normalizeMembers, Option.bind_eq_bind] at h
    cases hv : normalize v0 with
    | none => simp [hv] at h
    | some v0' =>
      simp only [hv, Option.bind_some] at h
      have ih := normalizeMembers_get ms _ r k hnd.2 h
      rw [ih, get?_insertSorted]
      by_cases hk : k0 = k
      · subst hk
        simp [hnd.1, get?_cons_eq, hv]
      · have hne : (k0 == k) = false := by simpa using hk
        have hk' : ¬ k = k0 := fun e => hk e.symm
        simp only [hne, Bool.false_eq_true, if_false, List.map_cons, List.mem_cons, hk', false_or, get?_cons_ne hk]

theorem normalizeMembers_keys : ∀ (ms acc r : List (String × Json)) (k : String), normalizeMembers ms acc = some r →
    (k ∈ r.map Prod.fst ↔ k ∈ ms.map Prod.fst ∨ k ∈ acc.map Prod.fst)
  | [], acc, r, k, h => by simp [normalizeMembers] at h; subst h; simp
  | (k0, v0) :: ms, acc, r, k, h => by
    simp only [normalizeMembers, Option.bind_eq_bind] at h
    cases hv : normalize v0 with
    | none => simp [hv] at h
    | some v0' =>
      simp only [hv, Option.bind_some] at h
      rw [normalizeMembers_keys ms _ r k h, keys_insertSorted]
      simp only [List.map_cons, List.mem_cons]
      constructor
      · rintro (h | h | h)
        · exact Or.inl (Or.inr h)
        · exact Or.inl (Or.inl h)
        · exact Or.inr h
      · rintro ((h | h) | h)
        · exact Or.inr (Or.inl h)
        · exact Or.inl h
        · exact Or.inr (Or.inr h)

theorem get?_some_mem {ms : List (String × Json)} {k : String} {v : Json} (h : Json.get? ms k = some v) : (k, v) ∈ ms := by
  induction ms with
  | nil => simp [Json.get?] at h
  | cons x r ih =>
    obtain ⟨x1, x2⟩ := x
    by_cases he : x1 = k
    · subst he
      rw [get?_cons_eq] at h
      cases h
      simp
    · rw [get?_cons_ne he] at h
      exact List.mem_cons_of_mem _ (ih h)

theorem mapM_congr_opt {α β : Type} (g g' : α → Option β) : ∀ (l : List α), (∀ a ∈ l, g a = g' a) → l.mapM g = l.mapM g'
  | [], _ => rfl
  | a :: l, h => by
    simp only [List.mapM_cons, h a (by simp), mapM_congr_opt g g' l (fun b hb => h b (by simp [hb]))]

/-- **struct bodies**: after the pass the derive decoder sees the same fields -/
theorem decodeFields_after_pass (fs : List FieldSpec) (ms ms' : List (String × Json)) (hnd : (ms.map Prod.fst).Nodup)
    (h : normalizeMembers ms [] = some ms')
    (hs : ∀ f ∈ fs, ∀ v, Json.get? ms f.name = some v → Strict f.ty v) :
    decodeFields true fs ms' = decodeFields false fs ms := by
  unfold decodeFields
  have hnd' : (ms'.map Prod.fst).Nodup := sorted_keys_nodup _ (normalizeMembers_sorted ms [] ms' (by simp [SortedKeys]) h)
  rw [hasDupField_false_of_nodup fs ms' hnd', hasDupField_false_of_nodup fs ms hnd]
  simp only [Bool.false_eq_true, if_false]
  apply mapM_congr_opt
  intro f hf
  unfold decodeField
  rw [normalizeMembers_get ms [] ms' f.name hnd h]
  cases hg : Json.get? ms f.name with
  | none =>
    have : Json.get? ([] : List (String × Json)) f.name = none := rfl
    simp [this]
  | some v =>
    have hmem := get?_some_mem hg
    have hk : f.name ∈ ms.map Prod.fst := List.mem_map.mpr ⟨(f.name, v), hmem, rfl⟩
    obtain ⟨v', hv'⟩ := normalizeMembers_each ms [] ms' h (f.name, v) hmem
    simp only [hk, if_true, Option.bind_some, hv']
    rw [decodeVal_after_pass f.ty v v' hv' (hs f hf v hg)]

end Sylvia.Serde
