import Sylvia.Model.Lex
import Sylvia.Model.Inter
namespace Lex

theorem lexLt_irrefl : ∀ a, lexLt a a = false
  | [] => rfl
  | a :: as => by simp [lexLt, lexLt_irrefl as]

theorem lexLt_trans : ∀ a b c, lexLt a b = true → lexLt b c = true → lexLt a c = true
  | [], [], _, h, _ => by simp [lexLt] at h
  | [], _ :: _, [], _, h => by simp [lexLt] at h
  | [], _ :: _, _ :: _, _, _ => by simp [lexLt]
  | _ :: _, [], _, h, _ => by simp [lexLt] at h
  | _ :: _, _ :: _, [], _, h => by simp [lexLt] at h
  | a :: as, b :: bs, c :: cs, h1, h2 => by
    simp only [lexLt] at h1 h2 ⊢
    by_cases hab : a < b
    · by_cases hbc : b < c
      · have : a < c := by omega
        simp [this]
      · simp only [hbc, if_false] at h2
        by_cases hcb : c < b
        · simp [hcb] at h2
        · have : a < c := by omega
          simp [this]
    · simp only [hab, if_false] at h1
      by_cases hba : b < a
      · simp [hba] at h1
      · simp only [hba, if_false] at h1
        have hab' : a = b := by omega
        subst hab'
        by_cases hbc : a < c
        · simp [hbc]
        · simp only [hbc, if_false] at h2 ⊢
          by_cases hcb : c < a
          · simp [hcb] at h2
          · simp only [hcb, if_false] at h2 ⊢
            exact lexLt_trans as bs cs h1 h2

theorem lexLt_total : ∀ a b, lexLt a b = true ∨ a = b ∨ lexLt b a = true
  | [], [] => by simp
  | [], _ :: _ => by simp [lexLt]
  | _ :: _, [] => by simp [lexLt]
  | a :: as, b :: bs => by
    simp only [lexLt]
    by_cases hab : a < b
    · simp [hab]
    · by_cases hba : b < a
      · simp [hba]
      · have : a = b := by omega
        subst this
        simp only [Nat.lt_irrefl, if_false, List.cons.injEq, true_and]
        exact lexLt_total as bs

theorem strictTotal : Inter.StrictTotal lexLt :=
  ⟨lexLt_irrefl, lexLt_trans, lexLt_total⟩

end Lex
