import Sylvia.Model.Inter
set_option linter.unusedSectionVars false
set_option linter.unusedVariables false
namespace Inter
variable {α : Type} [DecidableEq α] {lt : α → α → Bool}

def hd (cs : List (Cur α)) (i : Nat) : Option α := (cs[i]?).bind Cur.head

/-- `out` dominates every ongoing index below `i` -/
def Good (lt : α → α → Bool) (cs : List (Cur α)) (out i : Nat) : Prop :=
  ∀ l, l < i → ∀ h', hd cs l = some h' → ∃ h, hd cs out = some h ∧ lt h' h = false

theorem nextIndexGo_good (ord : StrictTotal lt) (cs : List (Cur α)) :
    ∀ (tl pre : List (Cur α)) (out i : Nat), cs = pre ++ tl → pre.length = i → Good lt cs out i →
      Good lt cs (nextIndexGo lt cs out i tl) cs.length := by
  intro tl
  induction tl with
  | nil =>
    intro pre out i hcs hlen hg
    simp at hcs; subst hcs; subst hlen
    simpa [nextIndexGo] using hg
  | cons c tl ih =>
    intro pre out i hcs hlen hg
    have hci : cs[i]? = some c := by subst hcs; subst hlen; simp
    have hnext : cs = (pre ++ [c]) ++ tl := by simp [hcs]
    have hlen' : (pre ++ [c]).length = i + 1 := by simp [hlen]
    have hdi : hd cs i = c.head := by simp [hd, hci]
    unfold nextIndexGo
    cases hch : c.head with
    | none =>
      simp only
      apply ih _ _ _ hnext hlen'
      intro l hl h' hh'
      rcases Nat.lt_succ_iff_lt_or_eq.mp hl with hl | rfl
      · exact hg l hl h' hh'
      · rw [hdi, hch] at hh'; cases hh'
    | some h =>
      simp only
      cases hout : (cs[out]?).bind Cur.head with
      | none =>
        simp only
        apply ih _ _ _ hnext hlen'
        intro l hl h' hh'
        rcases Nat.lt_succ_iff_lt_or_eq.mp hl with hl | rfl
        · obtain ⟨h2, hh2, _⟩ := hg l hl h' hh'
          simp [hd, hout] at hh2
        · rw [hdi, hch] at hh'; cases hh'
          exact ⟨h, by rw [hdi, hch], ord.irrefl _⟩
      | some ho =>
        simp only
        by_cases hlt : lt h ho = true
        · simp only [hlt, if_true]
          apply ih _ _ _ hnext hlen'
          intro l hl h' hh'
          rcases Nat.lt_succ_iff_lt_or_eq.mp hl with hl | rfl
          · obtain ⟨h2, hh2, hle⟩ := hg l hl h' hh'
            have : h2 = ho := by simp [hd, hout] at hh2; exact hh2.symm
            subst this
            refine ⟨h, by rw [hdi, hch], ?_⟩
            cases hx : lt h' h with
            | false => rfl
            | true => rw [ord.trans _ _ _ hx hlt] at hle; cases hle
          · rw [hdi, hch] at hh'; cases hh'
            exact ⟨h, by rw [hdi, hch], ord.irrefl _⟩
        · have hlt' : lt h ho = false := by simpa using hlt
          simp only [hlt', Bool.false_eq_true, if_false]
          apply ih _ _ _ hnext hlen'
          intro l hl h' hh'
          rcases Nat.lt_succ_iff_lt_or_eq.mp hl with hl | rfl
          · exact hg l hl h' hh'
          · rw [hdi, hch] at hh'; cases hh'
            exact ⟨ho, by simp [hd, hout], hlt'⟩

theorem nextIndex_min (ord : StrictTotal lt) (cs : List (Cur α)) :
    ∀ l h', hd cs l = some h' → ∃ h, hd cs (nextIndex lt cs) = some h ∧ lt h' h = false := by
  intro l h' hh'
  have hl : l < cs.length := by
    unfold hd at hh'
    cases hc : cs[l]? with
    | none => simp [hc] at hh'
    | some c => exact (List.getElem?_eq_some_iff.mp hc).1
  have := nextIndexGo_good ord cs cs [] 0 0 (by simp) rfl (by intro l hl; omega)
  exact this l hl h' hh'

end Inter
