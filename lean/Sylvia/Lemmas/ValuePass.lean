import Sylvia.Lemmas.SerdeRoundTrip
/-! The wrapper's generic-value pass on encodings of well-formed messages: it is the identity on
canonical argument values and only re-orders the members of a duplicate-free body. -/
namespace Sylvia.Serde

/-- integer widths that occur in Rust -/
def WFTy : VTy → Prop
  | .u b => b = 8 ∨ b = 16 ∨ b = 32 ∨ b = 64
  | .i b => b = 8 ∨ b = 16 ∨ b = 32 ∨ b = 64
  | .option t => WFTy t
  | .vec t => WFTy t
  | .pair a b => WFTy a ∧ WFTy b
  | _ => True

theorem canonInt_of_canonNat {s : String} {n : Nat} (h : canonNat s = some n) : canonInt s = some (n : Int) := by
  unfold canonInt
  split
  · rename_i cs heq
    unfold canonNat at h
    simp only [heq] at h
    simp [isDigits] at h
  · simp [h]

theorem valueNumOk_of_u {s : String} {n : Nat} (h : canonNat s = some n) (hn : n < 2 ^ 64) : valueNumOk s = true := by
  unfold valueNumOk
  rw [canonInt_of_canonNat h]
  simp only [decide_eq_true_eq]
  constructor
  · have : (0 : Int) ≤ (n : Int) := Int.natCast_nonneg n
    omega
  · have : (n : Int) < ((2 ^ 64 : Nat) : Int) := Int.ofNat_lt.mpr hn
    simpa using this

theorem normalize_canon : ∀ (t : VTy) (j c : Json), WFTy t → decodeVal false t j = some c → normalize c = some c := by
  intro t j
  refine decodeVal.induct false
    (motive1 := fun t j => ∀ c, WFTy t → decodeVal false t j = some c → normalize c = some c)
    (motive2 := fun t xs => ∀ cs, WFTy t → decodeVals false t xs = some cs → normalizeList cs = some cs)
    ?_ ?_ ?_ ?_ ?_ ?_ ?_ ?_ ?_ ?_ ?_ ?_ ?_ ?_ ?_ ?_ ?_ ?_ ?_ ?_ t j
  · intro bits s c hw h
    simp only [decodeVal] at h
    cases hn : canonNat s with
    | none => simp [hn] at h
    | some n =>
      simp only [hn, Option.bind_some] at h
      split at h
      · rename_i hlt
        cases h
        have : n < 2 ^ 64 := by
          rcases hw with rfl | rfl | rfl | rfl <;> simp at hlt ⊢ <;> omega
        simp [normalize, valueNumOk_of_u hn this]
      · cases h
  · intro bits s c hw h
    simp only [decodeVal] at h
    cases hn : canonInt s with
    | none => simp [hn] at h
    | some n =>
      simp only [hn, Option.bind_some] at h
      split at h
      · rename_i hr
        cases h
        have : valueNumOk s = true := by
          unfold valueNumOk
          rw [hn]
          simp only [decide_eq_true_eq]
          rcases hw with rfl | rfl | rfl | rfl <;> simp at hr ⊢ <;> omega
        simp [normalize, this]
      · cases h
  · intro x c _ h; simp only [decodeVal] at h; cases h; simp [normalize]
  · intro s c _ h; simp only [decodeVal] at h; cases h; simp [normalize]
  · intro s c _ h; simp only [decodeVal] at h; cases h; simp [normalize]
  · intro s c _ h
    simp only [decodeVal] at h
    cases hn : canonNat s with
    | none => simp [hn] at h
    | some n =>
      simp only [hn, Option.bind_some] at h
      split at h
      · cases h; simp [normalize]
      · cases h
  · intro s hb c _ h; simp only [decodeVal, hb, if_true] at h; cases h; simp [normalize]
  · intro s hb c _ h; simp [decodeVal, hb] at h
  · intro ms c _ h; simp only [decodeVal] at h; cases h; simp [normalize, normalizeMembers]
  · intro xs hv; simp at hv
  · intro xs hv c _ h; simp [decodeVal] at h
  · intro t c _ h; simp only [decodeVal] at h; cases h; simp [normalize]
  · intro t j hj ih c hw h
    have e : decodeVal false t.option j = decodeVal false t j := by
      cases j <;> first | exact absurd rfl hj | simp [decodeVal]
    rw [e] at h
    exact ih c hw h
  · intro t xs ih c hw h
    simp only [decodeVal] at h
    cases hx : decodeVals false t xs with
    | none => simp [hx] at h
    | some cs =>
      simp only [hx, Option.map_some] at h
      cases h
      simp [normalize, ih cs hw hx]
  · intro a b2 x y iha ihb c hw h
    simp only [decodeVal] at h
    cases hx : decodeVal false a x with
    | none => simp [hx] at h
    | some x' =>
      cases hy : decodeVal false b2 y with
      | none => simp [hx, hy] at h
      | some y' =>
        simp [hx, hy] at h
        cases h
        simp [normalize, normalizeList, iha x' hw.1 hx, ihb y' hw.2 hy]
  · intro a b2 x y hd tl hv; simp at hv
  · intro a b2 x y hd tl hv c _ h; simp [decodeVal] at h
  · intro t j h1 h2 h3 h4 h5 h6 h7 h8 h9 h10 h11 h12 h13 h14 c _ h
    exfalso
    cases t <;> cases j <;>
      first
      | exact h1 _ _ rfl rfl | exact h1 _ rfl rfl | exact h1 _ rfl | exact h2 _ _ rfl rfl | exact h2 _ rfl rfl | exact h2 _ rfl | exact h3 _ _ rfl rfl | exact h3 _ rfl rfl | exact h3 _ rfl | exact h4 _ _ rfl rfl | exact h4 _ rfl rfl | exact h4 _ rfl | exact h5 _ _ rfl rfl | exact h5 _ rfl rfl | exact h5 _ rfl | exact h6 _ _ rfl rfl | exact h6 _ rfl rfl | exact h6 _ rfl | exact h7 _ _ rfl rfl | exact h7 _ rfl rfl | exact h7 _ rfl | exact h8 _ _ rfl rfl | exact h8 _ rfl rfl | exact h8 _ rfl | exact h9 _ _ rfl rfl | exact h9 _ rfl rfl | exact h9 _ rfl | exact h10 _ _ rfl rfl | exact h10 _ rfl rfl | exact h10 _ rfl | exact h11 _ _ rfl rfl | exact h11 _ rfl rfl | exact h11 _ rfl | exact h12 _ _ rfl rfl | exact h12 _ rfl rfl | exact h12 _ rfl | exact h13 _ _ rfl rfl | exact h13 _ rfl rfl | exact h13 _ rfl | exact h14 _ _ rfl rfl | exact h14 _ rfl rfl | exact h14 _ rfl
      | (simp [decodeVal] at h; done)
      | skip
  · intro t cs _ h; simp only [decodeVals] at h; cases h; simp [normalizeList]
  · intro t x xs ihx ihxs cs hw h
    simp only [decodeVals] at h
    cases hx : decodeVal false t x with
    | none => simp [hx] at h
    | some x' =>
      cases hxs : decodeVals false t xs with
      | none => simp [hx, hxs] at h
      | some xs' =>
        simp [hx, hxs] at h
        cases h
        simp [normalizeList, ihx x' hw hx, ihxs xs' hw hxs]

/-- the sorted map the value pass builds from a member list -/
def sortedOf (ms acc : List (String × Json)) : List (String × Json) :=
  ms.foldl (fun a p => insertSorted p.1 p.2 a) acc

theorem normalizeMembers_canon : ∀ (ms acc : List (String × Json)),
    (∀ p ∈ ms, normalize p.2 = some p.2) → normalizeMembers ms acc = some (sortedOf ms acc)
  | [], acc, _ => by simp [normalizeMembers, sortedOf]
  | (k, v) :: ms, acc, h => by
    have hv : normalize v = some v := h (k, v) (by simp)
    simp only [normalizeMembers, hv, Option.bind_eq_bind, Option.bind_some]
    rw [normalizeMembers_canon ms _ (fun p hp => h p (by simp [hp]))]
    rfl

theorem get?_sortedOf : ∀ (ms acc : List (String × Json)) (k : String), (ms.map Prod.fst).Nodup →
    Json.get? (sortedOf ms acc) k = if k ∈ ms.map Prod.fst then Json.get? ms k else Json.get? acc k
  | [], acc, k, _ => by simp [sortedOf]
  | (k0, v0) :: ms, acc, k, hnd => by
    simp only [List.map_cons, List.nodup_cons] at hnd
    have ih := get?_sortedOf ms (insertSorted k0 v0 acc) k hnd.2
    have e : sortedOf ((k0, v0) :: ms) acc = sortedOf ms (insertSorted k0 v0 acc) := rfl
    rw [e, ih, get?_insertSorted]
    by_cases hk : k0 = k
    · subst hk
      simp [hnd.1, get?_cons_eq]
    · have hne : (k0 == k) = false := by simpa using hk
      simp only [hne, Bool.false_eq_true, if_false, List.map_cons, List.mem_cons]
      have hk' : ¬ k = k0 := fun e => hk e.symm
      simp only [hk', false_or, get?_cons_ne hk]

theorem insertSorted_perm (k : String) (v : Json) : ∀ (acc : List (String × Json)), k ∉ acc.map Prod.fst →
    (insertSorted k v acc).Perm ((k, v) :: acc)
  | [], _ => by simp [insertSorted]
  | (k', v') :: r, h => by
    simp only [List.map_cons, List.mem_cons, not_or] at h
    have hne : (k == k') = false := by simpa using h.1
    simp only [insertSorted, hne, Bool.false_eq_true, if_false]
    split
    · exact List.Perm.refl _
    · exact ((insertSorted_perm k v r h.2).cons (k', v')).trans (List.Perm.swap _ _ _)

theorem sortedOf_perm : ∀ (ms acc : List (String × Json)), (ms.map Prod.fst).Nodup →
    (∀ k ∈ ms.map Prod.fst, k ∉ acc.map Prod.fst) → (sortedOf ms acc).Perm (ms.reverse ++ acc)
  | [], acc, _, _ => by simp [sortedOf]
  | (k0, v0) :: ms, acc, hnd, hdis => by
    simp only [List.map_cons, List.nodup_cons] at hnd
    have hk0 : k0 ∉ acc.map Prod.fst := hdis k0 (by simp)
    have hp := insertSorted_perm k0 v0 acc hk0
    have ih := sortedOf_perm ms (insertSorted k0 v0 acc) hnd.2 (by
      intro k hk hk2
      rw [keys_insertSorted] at hk2
      rcases hk2 with rfl | hk2
      · exact hnd.1 hk
      · exact hdis k (by simp [hk]) hk2)
    have e : sortedOf ((k0, v0) :: ms) acc = sortedOf ms (insertSorted k0 v0 acc) := rfl
    rw [e]
    refine ih.trans ?_
    simp only [List.reverse_cons, List.append_assoc, List.singleton_append]
    exact List.Perm.append_left _ hp

theorem keys_sortedOf_nodup (ms : List (String × Json)) (hnd : (ms.map Prod.fst).Nodup) :
    ((sortedOf ms []).map Prod.fst).Nodup := by
  have hp := sortedOf_perm ms [] hnd (by simp)
  have : ((sortedOf ms []).map Prod.fst).Perm ((ms.reverse ++ []).map Prod.fst) := hp.map _
  rw [this.nodup_iff]
  simp only [List.append_nil, List.map_reverse]
  exact (List.reverse_perm _).nodup_iff.mpr hnd

theorem mapM_decodeField_of_get (b : Bool) (ms : List (String × Json)) : ∀ (fs : List FieldSpec) (cs : List Json),
    fs.length = cs.length →
    (∀ p ∈ fs.zip cs, Json.get? ms p.1.name = some p.2 ∧ decodeVal b p.1.ty p.2 = some p.2) →
    fs.mapM (decodeField b ms) = some (pairUp fs cs)
  | [], [], _, _ => by simp [pairUp]
  | f :: fs, c :: cs, hlen, h => by
    have h0 := h (f, c) (by simp)
    have ih := mapM_decodeField_of_get b ms fs cs (by simpa using hlen)
      (fun p hp => h p (by simp only [List.zip_cons_cons, List.mem_cons]; exact Or.inr hp))
    simp only [List.mapM_cons, decodeField, h0.1, h0.2, Option.map_some, ih]
    simp [pairUp_cons]
  | [], _ :: _, h, _ => by simp at h
  | _ :: _, [], h, _ => by simp at h

theorem get?_pairUp : ∀ (fs : List FieldSpec) (cs : List Json), fs.length = cs.length → (fs.map (·.name)).Nodup →
    ∀ p ∈ fs.zip cs, Json.get? (pairUp fs cs) p.1.name = some p.2
  | [], [], _, _ => by simp
  | f :: fs, c :: cs, hlen, hnd => by
    simp only [List.map_cons, List.nodup_cons] at hnd
    intro p hp
    simp only [List.zip_cons_cons, List.mem_cons] at hp
    rcases hp with rfl | hp
    · exact get?_cons_eq
    · rw [pairUp_cons]
      have hne : f.name ≠ p.1.name := by
        intro e
        apply hnd.1
        rw [e]
        exact List.mem_map_of_mem (List.of_mem_zip hp).1
      rw [get?_cons_ne hne]
      exact get?_pairUp fs cs (by simpa using hlen) hnd.2 p hp
  | [], _ :: _, h, _ => by simp at h
  | _ :: _, [], h, _ => by simp at h

/-- the value pass followed by the derive decoder gives back the members of an encoded body, in
declaration order -/
theorem decodeFields_sorted (fs : List FieldSpec) (cs : List Json)
    (hlen : fs.length = cs.length) (hnd : (fs.map (·.name)).Nodup)
    (hcan : ∀ p ∈ fs.zip cs, decodeVal false p.1.ty p.2 = some p.2) :
    decodeFields true fs (sortedOf (pairUp fs cs) []) = some (pairUp fs cs) := by
  have hkeys : ((pairUp fs cs).map Prod.fst).Nodup := by rw [keys_pairUp fs cs hlen]; exact hnd
  unfold decodeFields
  rw [hasDupField_false_of_nodup fs _ (keys_sortedOf_nodup _ hkeys)]
  simp only [Bool.false_eq_true, if_false]
  apply mapM_decodeField_of_get true _ fs cs hlen
  intro p hp
  constructor
  · rw [get?_sortedOf _ _ _ hkeys]
    have hmem : p.1.name ∈ (pairUp fs cs).map Prod.fst := by
      rw [keys_pairUp fs cs hlen]
      exact List.mem_map_of_mem (List.of_mem_zip hp).1
    simp only [hmem, if_true]
    exact get?_pairUp fs cs hlen hnd p hp
  · exact decodeVal_idem false true _ _ _ (hcan p hp)

end Sylvia.Serde
