import Sylvia.Model.Reply
/-! Invariants of the reply table built by the fold `Reply.replyTable`. -/
namespace Sylvia.Reply

/-- the outcomes of one entry never exclude one another -/
def Compatible (hs : List (Name × ReplyOn)) : Prop := hs.Pairwise fun a b => excludes a.2 b.2 = false

def TableOk (tbl : List Entry) : Prop :=
  (∀ e ∈ tbl, Compatible e.handlers) ∧ (tbl.map (·.id)).Nodup

theorem excludes_symm (a b : ReplyOn) : excludes a b = excludes b a := by
  cases a <;> cases b <;> rfl

theorem compatible_append {hs : List (Name × ReplyOn)} {x : Name × ReplyOn} (h : Compatible hs)
    (hx : hs.any (fun p => excludes p.2 x.2) = false) : Compatible (hs ++ [x]) := by
  unfold Compatible at *
  rw [List.pairwise_append]
  refine ⟨h, List.pairwise_singleton _ _, ?_⟩
  intro a ha b hb
  simp only [List.mem_singleton] at hb
  subst hb
  rw [List.any_eq_false] at hx
  simpa using hx a ha

theorem find?_id_mem {tbl : List Entry} {id : String} {e : Entry} (h : tbl.find? (·.id == id) = some e) :
    e ∈ tbl ∧ e.id = id := by
  have := List.find?_some h
  exact ⟨List.mem_of_find?_eq_some h, by simpa using this⟩

theorem upsert_ok (b : Bool) (tyEq : Ty → Ty → Bool) (acc : List Entry × List Diag) (mh : Method × Name)
    (h : TableOk acc.1) : TableOk (upsert b tyEq acc mh).1 := by
  obtain ⟨tbl, ds⟩ := acc
  obtain ⟨m, hn⟩ := mh
  unfold upsert
  simp only
  cases hf : tbl.find? (fun x => x.id == replyIdOf hn) with
  | some e =>
    simp only
    obtain ⟨hmem, hid⟩ := find?_id_mem hf
    split
    · exact h
    · rename_i hex
      have hex' : e.handlers.any (fun p => excludes p.2 (replyOnOfMethod m)) = false := by simpa using hex
      constructor
      · intro x hx
        simp only [List.mem_map] at hx
        obtain ⟨y, hy, rfl⟩ := hx
        split
        · simp only [mergeEntry]
          exact compatible_append (h.1 e hmem) hex'
        · exact h.1 y hy
      · have : (tbl.map fun x => if (x.id == replyIdOf hn) = true then (mergeEntry b tyEq e m).1 else x).map (·.id) = tbl.map (·.id) := by
          rw [List.map_map]
          apply List.map_congr_left
          intro x _
          simp only [Function.comp]
          split
          · rename_i hx
            simp only [mergeEntry]
            rw [hid]; exact (beq_iff_eq.mp hx).symm
          · rfl
        rw [this]; exact h.2
  | none =>
    simp only
    constructor
    · intro x hx
      rcases List.mem_append.mp hx with hx | hx
      · exact h.1 x hx
      · simp only [List.mem_singleton] at hx
        subst hx
        simp [newEntry, Compatible]
    · rw [List.map_append, List.nodup_append]
      refine ⟨h.2, by simp, ?_⟩
      intro a ha b hb
      simp only [List.map_cons, List.map_nil, List.mem_singleton] at hb
      subst hb
      obtain ⟨x, hx, rfl⟩ := List.mem_map.mp ha
      intro heq
      have := List.find?_eq_none.mp hf x hx
      simp [newEntry] at heq
      simp [heq] at this

theorem foldl_upsert_ok (b : Bool) (tyEq : Ty → Ty → Bool) : ∀ (l : List (Method × Name)) (acc : List Entry × List Diag),
    TableOk acc.1 → TableOk (l.foldl (upsert b tyEq) acc).1
  | [], _, h => h
  | x :: r, acc, h => foldl_upsert_ok b tyEq r _ (upsert_ok b tyEq acc x h)

/-- **Table invariant**: whatever the methods and their order, every entry of the table holds mutually
compatible outcomes (at most one `success`, at most one `error`, `always` alone) and ids are distinct. -/
theorem replyTable_ok (b : Bool) (tyEq : Ty → Ty → Bool) (ms : List Method) : TableOk (replyTable b tyEq ms).1 := by
  unfold replyTable
  exact foldl_upsert_ok b tyEq _ _ ⟨by simp, by simp⟩

/-- in a compatible entry an `always` method is the only method -/
theorem always_alone {hs : List (Name × ReplyOn)} (h : Compatible hs) {fn : Name} (hm : (fn, .always) ∈ hs) :
    hs = [(fn, .always)] := by
  unfold Compatible at h
  match hs, h, hm with
  | [x], _, hm => simp at hm; rw [hm]
  | x :: y :: r, h, hm =>
    exfalso
    rw [List.pairwise_cons] at h
    rcases List.mem_cons.mp hm with rfl | hm'
    · have := h.1 y (by simp)
      simp [excludes] at this
    · have := h.1 (fn, .always) hm'
      cases hx : x.2 <;> simp [excludes, hx] at this

/-- … and a declared outcome is found regardless of the position of its method in the entry -/
theorem find_success {hs : List (Name × ReplyOn)} (h : Compatible hs) {fn : Name} (hm : (fn, .success) ∈ hs) :
    hs.find? (fun p => p.2 == .success || p.2 == .always) = some (fn, .success) := by
  induction hs with
  | nil => simp at hm
  | cons x r ih =>
    unfold Compatible at h
    rw [List.pairwise_cons] at h
    rcases List.mem_cons.mp hm with rfl | hm'
    · simp [List.find?]
    · have hx := h.1 (fn, .success) hm'
      have : (x.2 == ReplyOn.success || x.2 == ReplyOn.always) = false := by
        cases hx2 : x.2 <;> simp [excludes, hx2] at hx ⊢
      simp only [List.find?, this]
      exact ih h.2 hm'

theorem find_error {hs : List (Name × ReplyOn)} (h : Compatible hs) {fn : Name} (hm : (fn, .error) ∈ hs) :
    hs.find? (fun p => p.2 == .error || p.2 == .always) = some (fn, .error) := by
  induction hs with
  | nil => simp at hm
  | cons x r ih =>
    unfold Compatible at h
    rw [List.pairwise_cons] at h
    rcases List.mem_cons.mp hm with rfl | hm'
    · simp [List.find?]
    · have hx := h.1 (fn, .error) hm'
      have : (x.2 == ReplyOn.error || x.2 == ReplyOn.always) = false := by
        cases hx2 : x.2 <;> simp [excludes, hx2] at hx ⊢
      simp only [List.find?, this]
      exact ih h.2 hm'

theorem find_none_of_absent {hs : List (Name × ReplyOn)} (o : ReplyOn)
    (h1 : ∀ fn, (fn, o) ∉ hs) (h2 : ∀ fn, (fn, ReplyOn.always) ∉ hs) :
    hs.find? (fun p => p.2 == o || p.2 == .always) = none := by
  rw [List.find?_eq_none]
  intro x hx
  simp only [Bool.or_eq_true, beq_iff_eq, not_or]
  constructor
  · intro e; exact h1 x.1 (by rw [← e]; exact hx)
  · intro e; exact h2 x.1 (by rw [← e]; exact hx)

end Sylvia.Reply
