import Sylvia.Lemmas.Inter2
set_option linter.unusedSectionVars false
set_option linter.unusedVariables false
namespace Inter
variable {α : Type} [DecidableEq α] {lt : α → α → Bool}

def SortedRest (lt : α → α → Bool) (cs : List (Cur α)) : Prop := ∀ c ∈ cs, Sorted lt c.rest

def Inv (cs : List (Cur α)) : Prop :=
  ∀ (k l : Nat) (ck cl : Cur α), k ≠ l → cs[k]? = some ck → cs[l]? = some cl → ∀ x, x ∈ ck.done → x ∉ cl.full

theorem not_shouldEnd {cs : List (Cur α)} (h : shouldEnd cs = false) : ∃ l h', hd cs l = some h' := by
  unfold shouldEnd at h
  rw [List.all_eq_false] at h
  obtain ⟨c, hc, hne⟩ := h
  obtain ⟨l, hl, rfl⟩ := List.getElem_of_mem hc
  cases hr : cs[l].rest with
  | nil => simp [hr] at hne
  | cons a t => exact ⟨l, a, by unfold hd; rw [List.getElem?_eq_getElem hl]; simp [Cur.head, hr]⟩

theorem step_getElem? (cs : List (Cur α)) (m i : Nat) :
    (step cs m)[i]? = (cs[i]?).map (fun c => if m = i then c.advance else c) := by
  unfold step
  rw [List.getElem?_modify]
  by_cases h : m = i <;> cases cs[i]? <;> simp [h]

theorem sorted_tail {a : α} {t : List α} (h : Sorted lt (a :: t)) : Sorted lt t := h.2

theorem step_sorted {cs : List (Cur α)} (m : Nat) (hs : SortedRest lt cs) : SortedRest lt (step cs m) := by
  intro c hc
  obtain ⟨i, hi, rfl⟩ := List.getElem_of_mem hc
  have := step_getElem? cs m i
  rw [List.getElem?_eq_getElem hi] at this
  cases hci : cs[i]? with
  | none => simp [hci] at this
  | some ci =>
    simp [hci] at this
    have hmem : ci ∈ cs := List.mem_of_getElem? hci
    have hsi := hs ci hmem
    rw [this]
    split
    · unfold Cur.advance
      cases hr : ci.rest with
      | nil => simpa [hr] using hsi
      | cons a t => rw [hr] at hsi; simpa using sorted_tail hsi
    · exact hsi

theorem step_inv (ord : StrictTotal lt) {cs : List (Cur α)} (hs : SortedRest lt cs) (hinv : Inv cs)
    {h : α} (hm : hd cs (nextIndex lt cs) = some h)
    (hmin : ∀ l h', hd cs l = some h' → lt h' h = false)
    (hc : collides cs (nextIndex lt cs) = false) : Inv (step cs (nextIndex lt cs)) := by
  generalize hmdef : nextIndex lt cs = m at *
  intro k l ck' cl' hkl hk hl x hx
  rw [step_getElem?] at hk hl
  cases hck : cs[k]? with
  | none => simp [hck] at hk
  | some ck =>
  cases hcl : cs[l]? with
  | none => simp [hcl] at hl
  | some cl =>
  simp [hck] at hk; simp [hcl] at hl
  -- the selected cursor
  have hcm : ∃ cm, cs[m]? = some cm ∧ cm.head = some h := by
    unfold hd at hm
    cases hcm : cs[m]? with
    | none => simp [hcm] at hm
    | some cm => exact ⟨cm, rfl, by simpa [hcm] using hm⟩
  obtain ⟨cm, hcm, hcmh⟩ := hcm
  by_cases hmk : m = k
  · -- k is the advanced one, l is untouched
    subst hmk
    have hml : ¬ m = l := hkl
    simp [hml] at hl; subst hl
    simp at hk; subst hk
    have : ck = cm := by rw [hck] at hcm; exact Option.some.inj hcm
    subst this
    -- done of advance
    unfold Cur.head at hcmh
    cases hr : ck.rest with
    | nil => simp [hr] at hcmh
    | cons a t =>
      simp [hr] at hcmh; subst hcmh
      have hx' : x = a ∨ x ∈ ck.done := by
        unfold Cur.advance at hx; simpa [hr] using hx
      rcases hx' with rfl | hx'
      · -- the freshly consumed element
        intro hmem
        unfold Cur.full at hmem
        rcases List.mem_append.mp hmem with hd' | hr'
        · have hd'' : x ∈ cl.done := by simpa using hd'
          have := hinv l m cl ck (Ne.symm hkl) hcl hck x hd''
          exact this (by unfold Cur.full; simp [hr])
        · cases hrl : cl.rest with
          | nil => simp [hrl] at hr'
          | cons b u =>
            have hl_lt : l < cs.length := (List.getElem?_eq_some_iff.mp hcl).1
            have hlk : lk cs l = some b := by simp [lk, hcl, Cur.look, hrl]
            have hne := collides_false hm hc l hl_lt (Ne.symm hkl)
            have hbx : b ≠ x := by intro e; apply hne; rw [hlk, e]
            have hhd : hd cs l = some b := by simp [hd, hcl, Cur.head, hrl]
            have hle := hmin l b hhd
            rw [hrl] at hr'
            rcases List.mem_cons.mp hr' with e | hu
            · exact hbx e.symm
            · have hsl := hs cl (List.mem_of_getElem? hcl)
              rw [hrl] at hsl
              have := hsl.1 x hu
              rw [this] at hle; cases hle
      · exact hinv m l ck cl hkl hck hcl x hx'
  · simp [hmk] at hk; subst hk
    by_cases hml : m = l
    · subst hml
      simp at hl; subst hl
      rw [advance_full]
      exact hinv k m ck cl hkl hck hcl x hx
    · simp [hml] at hl; subst hl
      exact hinv k l ck cl hkl hck hcl x hx

theorem end_disjoint {cs : List (Cur α)} (he : shouldEnd cs = true) (hinv : Inv cs) : FullDisjoint cs := by
  intro k l ck cl hkl hk hl x hx
  have hk' : ck.rest = [] := by
    unfold shouldEnd at he
    rw [List.all_eq_true] at he
    simpa using he ck (List.mem_of_getElem? hk)
  have : x ∈ ck.done := by unfold Cur.full at hx; simpa [hk'] using hx
  exact hinv k l ck cl hkl hk hl x this

theorem loop_true_complete (ord : StrictTotal lt) : ∀ (fuel : Nat) (cs : List (Cur α)),
    SortedRest lt cs → Inv cs → loop lt fuel cs = some true → FullDisjoint cs := by
  intro fuel
  induction fuel with
  | zero =>
    intro cs _ hinv h
    unfold loop at h
    split at h
    · rename_i he; exact end_disjoint he hinv
    · cases h
  | succ n ih =>
    intro cs hs hinv h
    unfold loop at h
    split at h
    · rename_i he; exact end_disjoint he hinv
    · rename_i he
      simp only at h
      split at h
      · cases h
      · rename_i hc
        have he' : shouldEnd cs = false := by simpa using he
        obtain ⟨l, h', hl⟩ := not_shouldEnd he'
        obtain ⟨hh, hm, _⟩ := nextIndex_min ord cs l h' hl
        have hmin : ∀ l h', hd cs l = some h' → lt h' hh = false := by
          intro l2 h2 hl2
          obtain ⟨h3, hm3, hle⟩ := nextIndex_min ord cs l2 h2 hl2
          rw [hm] at hm3; cases hm3; exact hle
        have hc' : collides cs (nextIndex lt cs) = false := by simpa using hc
        have hinv' := step_inv ord hs hinv hm hmin hc'
        have := ih _ (step_sorted _ hs) hinv' h
        exact (fullDisjoint_congr (step_full cs _)).mp this

end Inter
