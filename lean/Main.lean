import Sylvia.Driver.Loop
/-! `svmodel`: the model driver — the hand-written model only. Operations that run functions regenerated from the Rust source live
in separate executables (`svx_utils`, `svx_bridge`), one per regenerated file, so that a regenerated file that no longer builds
affects only the property it belongs to. -/
def main : IO Unit := DriverLoop.mainWith (fun _ _ => none)
