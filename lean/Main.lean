import Sylvia.Model.Inter
import Sylvia.Model.Lex
import Sylvia.Extracted.UtilsFns
import Sylvia.Model.Casing
import Sylvia.Driver.Util
import Sylvia.Driver.Ops
import Sylvia.Driver.MtOps
import Sylvia.Model.WF
/-! `svmodel`: one operation per input line, one canonical line of output per operation.
The same operation files are fed to the Rust harnesses; the streams are diffed by ./check. -/
open Driver

def parseLists (s : String) : List (List (List Nat)) :=
  if s == "-" then [] else
  (s.splitOn "|").map fun arr => if arr.isEmpty then [] else (arr.splitOn ",").map unhexBytes

def opInter (rest : String) : String :=
  match Inter.assertNoIntersection Lex.lexLt (parseLists rest) with
  | some true => "ok" | some false => "panic" | none => "fuel"

/-- the functions regenerated from sylvia/src/utils.rs by the function translator, run on the same tuples -/
def opInterX (rest : String) : String :=
  let msgs := parseLists rest
  let fuel := msgs.length + (msgs.map List.length).sum + 2
  match Extracted.Utils.assert_no_intersection Lex.cmpBytes fuel msgs.length msgs with
  | .ok _ => "ok" | .panic => "panic" | .oof => "fuel"

open Casing in
def opCase (rest : String) : String :=
  match identOfString rest with
  | none => "bad-op"
  | some n =>
    let camel := ccUpperCamel n
    s!"{identToString camel} {identToString (ccSnake camel)} {identToString (ccUpperSnake n)} {identToString (serdeSnake camel)}"

def handle (line : String) : String :=
  let (op, rest) := splitOp line
  match op with
  | "inter" => opInter rest
  | "interx" => opInterX rest
  | "case" => opCase rest
  | _ => "bad-op " ++ op

partial def loop (h : IO.FS.Stream) (out : IO.FS.Stream) (st : State) : IO Unit := do
  let line ← h.getLine
  if line.isEmpty then return ()
  let l := if line.endsWith "\n" then (line.dropEnd 1).toString else line
  let (op, rest) := splitOp l
  if op == "mtp" then out.putStrLn (Driver.opMtp st rest); loop h out st
  else if op == "mtr" then out.putStrLn (Driver.opMtr st rest); loop h out st
  else if op == "wf" then out.putStrLn (toString (Sylvia.Gen.progWFb (Driver.progOf st))); loop h out st
  else if op == "mtlower" then out.putStrLn (Driver.opMtlower st rest); loop h out st
  else
  match step st l with
  | (st', some r) => out.putStrLn r; loop h out st'
  | (st', none) => out.putStrLn (handle l); loop h out st'

def main : IO Unit := do
  let out ← IO.getStdout
  loop (← IO.getStdin) out {}
  out.flush
