import Sylvia.Driver.Loop
import Sylvia.Extracted.UtilsFns
import Sylvia.Driver.BridgeOps
/-! `svmodel`: the model driver, with the operations that run the functions regenerated from the Rust source. -/
open DriverLoop Driver

/-- the functions regenerated from sylvia/src/utils.rs by the function translator, run on the same tuples -/
def opInterX (rest : String) : String :=
  let msgs := parseLists rest
  let fuel := msgs.length + (msgs.map List.length).sum + 2
  match Extracted.Utils.assert_no_intersection Lex.cmpBytes fuel msgs.length msgs with
  | .ok _ => "ok" | .panic => "panic" | .oof => "fuel"

def extra (op rest : String) : Option String :=
  match op with
  | "interx" => some (opInterX rest)
  | "intorespx" => some (Driver.opIntoRespX rest)
  | _ => none

def main : IO Unit := mainWith extra
