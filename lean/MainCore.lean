import Sylvia.Driver.Loop
/-! `svmodel_core`: the model driver without the operations that run regenerated functions. Built and used only when a
regenerated file (Extracted/*Fns.lean) no longer builds, so that the hand-written model can still be run next to the code in the
search for a concrete failing input. -/
def main : IO Unit := DriverLoop.mainWith (fun _ _ => none)
