import Sylvia.Driver.Loop
import Sylvia.Driver.BridgeOps
/-! `svx_bridge`: the functions regenerated from sylvia/src/into_response.rs, run on the same responses as the real `IntoResponse`
(operation `intorespx`). -/
def main : IO Unit := DriverLoop.mainWith fun op rest => if op == "intorespx" then some (Driver.opIntoRespX rest) else none
