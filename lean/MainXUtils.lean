import Sylvia.Driver.Loop
import Sylvia.Extracted.UtilsFns
/-! `svx_utils`: the functions regenerated from sylvia/src/utils.rs by the function translator, run on the same tuples as the real
`const fn` (operation `interx`). -/
open DriverLoop Driver

def opInterX (rest : String) : String :=
  let msgs := parseLists rest
  let fuel := msgs.length + (msgs.map List.length).sum + 2
  match Extracted.Utils.assert_no_intersection Lex.cmpBytes fuel msgs.length msgs with
  | .ok _ => "ok" | .panic => "panic" | .oof => "fuel"

def main : IO Unit := mainWith fun op rest => if op == "interx" then some (opInterX rest) else none
